"""K2 (null-code preservation), F1 (factorization routes), E1/E2 (EMA), U1/U2 (cumulative) rules."""
from __future__ import annotations

import ast
from typing import Dict, List, Optional, Set, Tuple

from .kernels import base_name, code_guard_facts, const_int, infer_roles
from .model import AnalysisError, Func, Repo, attr_chain, call_name, norm, walk_no_nested
from .paths import SymEnv, SymPath, enumerate_paths
from .report import RuleResult
from .walker import EMPTY, FactWalker

CODE_SOURCES = {"factorize_1d", "factorize_2d", "pd.factorize", "factorize_array", "_combine_factorizations",
                "monotonic_factorization"}


def _is_null_mask_def(st: ast.stmt, codes: Set[str]) -> Optional[str]:
    """null = C == -1   /   null = C < 0"""
    if isinstance(st, ast.Assign) and len(st.targets) == 1 and isinstance(st.targets[0], ast.Name) \
            and isinstance(st.value, ast.Compare) and len(st.value.ops) == 1 and isinstance(st.value.left, ast.Name) \
            and st.value.left.id in codes:
        op, c = st.value.ops[0], const_int(st.value.comparators[0])
        if (isinstance(op, ast.Eq) and c == -1) or (isinstance(op, ast.Lt) and c == 0):
            return st.targets[0].id
    return None


def _code_taint(f: Func) -> Set[str]:
    """names that hold row codes in a (non-kernel) function"""
    tainted: Set[str] = set()
    changed = True
    while changed:
        changed = False
        for n in walk_no_nested(f.node):
            if isinstance(n, ast.Assign):
                v = n.value
                src = False
                if isinstance(v, ast.Call):
                    cn = call_name(v) or ""
                    if cn in CODE_SOURCES or cn.split(".")[-1] in CODE_SOURCES:
                        src = True
                c = attr_chain(v)
                if c and c[0] == "self" and len(c) >= 2 and c[1] in ("_group_ikey", "group_ikey"):
                    src = True
                if isinstance(v, (ast.ListComp, ast.GeneratorExp)) or (isinstance(v, ast.Call) and norm(v.func) in ("list", "tuple")):
                    # a local container built from the grouping's code chunks holds codes
                    for x in ast.walk(v):
                        cx = attr_chain(x) if isinstance(x, ast.Attribute) else None
                        if cx and cx[0] == "self" and len(cx) >= 2 and cx[1] in ("_group_ikey", "group_ikey"):
                            src = True
                if isinstance(v, ast.Name) and v.id in tainted:
                    src = True
                if isinstance(v, ast.Subscript) and isinstance(v.slice, ast.Name) and v.slice.id in tainted:
                    src = True     # M[C] is again codes (this is the re-mapping itself)
                if src:
                    for t in n.targets:
                        first = t.elts[0] if isinstance(t, ast.Tuple) and t.elts else t
                        while isinstance(first, ast.Subscript):
                            first = first.value
                        if isinstance(first, ast.Name) and first.id not in tainted:
                            tainted.add(first.id)
                            changed = True
            if isinstance(n, (ast.ListComp, ast.GeneratorExp)):
                for g in n.generators:
                    it = g.iter
                    if isinstance(it, ast.Call) and norm(it.func) == "zip" and isinstance(g.target, ast.Tuple):
                        for a, t in zip(it.args, g.target.elts):
                            c = attr_chain(a)
                            is_codes = (c and c[0] == "self" and len(c) >= 2 and c[1] in ("_group_ikey", "group_ikey")) \
                                or (isinstance(a, ast.Name) and a.id in tainted)
                            if is_codes and isinstance(t, ast.Name) and t.id not in tainted:
                                tainted.add(t.id)
                                changed = True
    return tainted


def rule_K2(repo: Repo) -> RuleResult:
    res = RuleResult("K2", "the null code -1 is preserved by every code re-mapping and produced for a null in any key position")
    n_sites = 0
    for modname in ("groupby.factorization", "groupby.core"):
        mod = repo.mod(modname)
        for f in mod.functions.values():
            if f.is_njit:
                continue
            codes = _code_taint(f)
            if not codes:
                continue
            stmts = [n for n in walk_no_nested(f.node) if isinstance(n, ast.stmt)]
            for n in walk_no_nested(f.node):
                # M[C]  |  M.take(C)  |  np.take(M, C): all index the table M by the codes C (negative C counts from the end)
                table = None
                C = None
                if isinstance(n, ast.Subscript) and isinstance(n.ctx, ast.Load) and isinstance(n.slice, ast.Name) \
                        and n.slice.id in codes:
                    table, C = n.value, n.slice.id
                elif isinstance(n, ast.Call) and isinstance(n.func, ast.Attribute) and n.func.attr == "take" and n.args \
                        and isinstance(n.args[0], ast.Name) and n.args[0].id in codes and norm(n.func.value) not in ("np", "numpy"):
                    table, C = n.func.value, n.args[0].id
                elif isinstance(n, ast.Call) and norm(n.func) in ("np.take", "numpy.take") and len(n.args) >= 2 \
                        and isinstance(n.args[1], ast.Name) and n.args[1].id in codes:
                    table, C = n.args[0], n.args[1].id
                if table is None:
                    continue
                # is this a code -> code re-mapping?  (the value flows into a codes variable / the grouping's codes)
                st = _stmt_containing(f, n)
                if st is None or not isinstance(st, ast.Assign):
                    continue
                tgt = st.targets[0]
                tb = tgt
                while isinstance(tb, ast.Subscript):
                    tb = tb.value
                tname = tb.id if isinstance(tb, ast.Name) else None
                flows_to_codes = tname in codes or _flows_to_group_ikey(f, tname)
                if not flows_to_codes:
                    continue
                if isinstance(table, ast.Name) and table.id in codes:
                    continue
                n_sites += 1
                construct = norm(st)
                # idiom (iii): trailing -1 slot
                base = table
                if isinstance(base, ast.Call) and norm(base.func) in ("np.append", "numpy.append") and len(base.args) == 2 \
                        and const_int(base.args[1]) == -1:
                    res.ok(f, n, construct, "idiom iii: table extended with a trailing -1 slot, so -1 maps to -1")
                    continue
                # idiom (ii): np.where(C < 0, -1, ...)
                par = _parent_call(f, n)
                if par is not None and norm(par.func) in ("np.where", "numpy.where") and len(par.args) == 3 \
                        and const_int(par.args[1]) == -1 and C in norm(par.args[0]):
                    res.ok(f, n, construct, "idiom ii: np.where(C < 0, -1, ...)")
                    continue
                # idiom (i): save / restore
                saved = None
                restored = False
                for s2 in stmts:
                    if s2.lineno < st.lineno:
                        nm = _is_null_mask_def(s2, {C})
                        if nm:
                            saved = nm
                    elif s2.lineno > st.lineno and saved and isinstance(s2, ast.Assign) and len(s2.targets) == 1:
                        t2 = s2.targets[0]
                        if isinstance(t2, ast.Subscript) and isinstance(t2.value, ast.Name) and t2.value.id == tname \
                                and isinstance(t2.slice, ast.Name) and t2.slice.id == saved and const_int(s2.value) == -1:
                            restored = True
                if saved and restored and _same_block(f, st, saved, tname):
                    res.ok(f, n, construct, f"idiom i: null positions saved in {saved!r} before and restored to -1 after")
                else:
                    guard = [g for g in _enclosing_tests(f, st) if "has_null" in norm(g)]
                    later = any(isinstance(x, ast.If) and "has_null" in norm(x.test) and x.lineno > st.lineno
                                for x in walk_no_nested(f.node))
                    extra = ""
                    if guard or later:
                        extra = (" (the preservation is made conditional on a has-null flag; for chunked codes "
                                 "GroupBy.has_null_keys reads the arrow null_count of sentinel-coded integers, which is "
                                 "always 0, so the guard is not a sound null test)")
                    res.bad(f, n, construct,
                            f"codes {C!r} are re-mapped through a code->code table without preserving the null code: "
                            f"-1 indexes the table from the end, so null-key rows receive the code of a real group" + extra)
    # kernel scalar analogue: _weight_code_sum
    fz = repo.mod("groupby.factorization")
    w = fz.func("_weight_code_sum")
    _k2_weight_code_sum(w, res)
    n_sites += 1
    # the combiner writes -1 for a null combined code
    cf = fz.func("_combine_factorizations")
    ok = False
    for n in walk_no_nested(cf.node):
        if isinstance(n, ast.If):
            pos, neg = code_guard_facts(n.test)
            if isinstance(n.test, ast.Compare) and const_int(n.test.comparators[0]) == -1 and isinstance(n.test.ops[0], ast.Eq):
                body = [norm(s) for s in n.body]
                if any(b.endswith("= -1") and "combined_codes" in b for b in body):
                    ok = True
                    res.ok(cf, n, f"if {norm(n.test)}: " + "; ".join(body), "null combined code is written as -1")
    if not ok:
        res.bad(cf, cf.node, "_combine_factorizations: null branch", "a null combined code is no longer written as -1")
    res.analysed = {"remap_sites": n_sites}
    if n_sites < 4:
        raise AnalysisError(f"K2: only {n_sites} re-mapping sites found (confirmed floor 4)")
    return res


def _same_block(f: Func, st: ast.stmt, saved: str, tname: str) -> bool:
    """the save and the restore are not under a condition the re-mapping itself is not under"""
    mine = [norm(t) for t in _enclosing_tests(f, st)]
    for s2 in walk_no_nested(f.node):
        if isinstance(s2, ast.Assign) and len(s2.targets) == 1:
            t2 = s2.targets[0]
            if isinstance(t2, ast.Subscript) and isinstance(t2.slice, ast.Name) and t2.slice.id == saved:
                theirs = [norm(t) for t in _enclosing_tests(f, s2)]
                if any(t not in mine for t in theirs):
                    return False
    return True


def _enclosing_tests(f: Func, stmt: ast.AST) -> List[ast.AST]:
    out: List[ast.AST] = []

    def rec(n, tests):
        if n is stmt:
            out.extend(tests)
            return True
        for fld, val in ast.iter_fields(n):
            if isinstance(val, list):
                for c in val:
                    if isinstance(c, ast.AST):
                        t2 = tests + [n.test] if isinstance(n, ast.If) and fld in ("body", "orelse") else tests
                        if rec(c, t2):
                            return True
            elif isinstance(val, ast.AST):
                if rec(val, tests):
                    return True
        return False

    rec(f.node, [])
    return out


def _stmt_containing(f: Func, node: ast.AST) -> Optional[ast.stmt]:
    best = None
    for st in walk_no_nested(f.node):
        if isinstance(st, ast.stmt) and not isinstance(st, (ast.If, ast.For, ast.While, ast.Try, ast.With, ast.FunctionDef)):
            for n in ast.walk(st):
                if n is node:
                    best = st
    return best


def _parent_call(f: Func, node: ast.AST) -> Optional[ast.Call]:
    for n in walk_no_nested(f.node):
        if isinstance(n, ast.Call) and any(a is node for a in n.args):
            return n
    return None


def _flows_to_group_ikey(f: Func, name: Optional[str]) -> bool:
    if name is None:
        return False
    for n in walk_no_nested(f.node):
        if isinstance(n, ast.Assign) and any(attr_chain(t) == ("self", "_group_ikey") for t in n.targets):
            if name in {x.id for x in ast.walk(n.value) if isinstance(x, ast.Name)}:
                return True
    return False


def _k2_weight_code_sum(w: Func, res: RuleResult):
    """every component of the code row is null-tested before the combined code is returned"""
    codes_p = w.named_params[0]
    tested: Set[str] = set()     # regions: 'all', 'but-last', 'last'
    untested_reads: List[ast.AST] = []

    def region_of(e: ast.AST) -> Optional[str]:
        if isinstance(e, ast.Name) and e.id == codes_p:
            return "all"
        if isinstance(e, ast.Subscript) and isinstance(e.value, ast.Name) and e.value.id == codes_p:
            sl = e.slice
            if isinstance(sl, ast.Slice) and sl.lower is None and const_int(sl.upper) == -1 and sl.step is None:
                return "but-last"
            if const_int(sl) == -1:
                return "last"
            return "other"
        return None

    def null_return_guard(stmts: List[ast.stmt], var: str) -> bool:
        for st in stmts:
            if isinstance(st, ast.If):
                pos, neg = code_guard_facts(st.test)
                if ("ge0", var) in neg and any(isinstance(b, ast.Return) and const_int(b.value) == -1 for b in st.body):
                    return True
            # the variable must not be used before the guard
            if var in {n.id for n in ast.walk(st) if isinstance(n, ast.Name)}:
                return False
        return False

    body = w.node.body
    for i, st in enumerate(body):
        if isinstance(st, ast.For):
            it = st.iter
            srcs = it.args if isinstance(it, ast.Call) and norm(it.func) == "zip" else [it]
            tgts = st.target.elts if isinstance(st.target, ast.Tuple) else [st.target]
            for a, t in zip(srcs, tgts):
                r = region_of(a)
                if r and isinstance(t, ast.Name):
                    if null_return_guard(st.body, t.id):
                        tested.add(r)
                    else:
                        untested_reads.append(st)
        elif isinstance(st, ast.Assign) and len(st.targets) == 1 and isinstance(st.targets[0], ast.Name):
            r = region_of(st.value)
            if r:
                if null_return_guard(body[i + 1:], st.targets[0].id):
                    tested.add(r)
                else:
                    untested_reads.append(st)
        elif isinstance(st, ast.Return):
            for n in ast.walk(st):
                if region_of(n) in ("last", "other", "all"):
                    untested_reads.append(st)
    covered = "all" in tested or {"but-last", "last"} <= tested
    construct = f"_weight_code_sum: components null-tested = {sorted(tested)}"
    if covered and not untested_reads:
        res.ok(w, w.node, construct, "a null (-1) in any key position returns -1")
    else:
        where = untested_reads[0] if untested_reads else w.node
        res.bad(w, where, construct + (f"; untested read: {norm(where)[:60]}" if untested_reads else ""),
                "a component of the code row contributes to the combined code without being tested for the null code: "
                "a null in that key position is added as -1 and collides with another group's code")


# ------------------------------------------------------------------------------- F1

class _F1Walker(FactWalker):
    def __init__(self, f: Func, elem_names: Set[str], arrays: Set[str], res: RuleResult):
        super().__init__()
        self.f = f
        self.elems = elem_names
        self.arrays = arrays
        self.res = res
        self.n = 0
        self.label_arrays: Set[str] = {"labels"}

    def test_facts(self, test, facts):
        pos, neg = set(), set()
        # x != x  (true: null)   /   is_null(x), np.isnan(x)
        if isinstance(test, ast.Compare) and len(test.ops) == 1 and isinstance(test.ops[0], ast.NotEq) \
                and norm(test.left) == norm(test.comparators[0]):
            neg.add(("notnull", norm(test.left)))
        if isinstance(test, ast.Compare) and len(test.ops) == 1 and isinstance(test.ops[0], ast.Eq) \
                and norm(test.left) == norm(test.comparators[0]):
            pos.add(("notnull", norm(test.left)))
        if isinstance(test, ast.Call) and norm(test.func) in ("is_null", "np.isnan", "np.isnat") and len(test.args) == 1:
            neg.add(("notnull", norm(test.args[0])))
        return pos, neg

    def fact_names(self, fact):
        # a fact about "arr[0]" depends on arr; about "x" on x
        return [n for n in _names_of_text(fact[1])]

    def gen(self, stmt, facts):
        out = set()
        if isinstance(stmt, ast.Assign) and len(stmt.targets) == 1 and isinstance(stmt.targets[0], ast.Name):
            if ("notnull", norm(stmt.value)) in self._pre:
                out.add(("notnull", stmt.targets[0].id))
        return out

    def on_stmt(self, stmt, facts):
        self._pre = facts

    def check_node(self, node, facts, store=False):
        if isinstance(node, ast.Compare) and any(isinstance(o, (ast.Lt, ast.Gt, ast.LtE, ast.GtE)) for o in node.ops):
            for side in [node.left] + node.comparators:
                if isinstance(side, ast.Name) and side.id in self.elems:
                    self.n += 1
                    if ("notnull", side.id) in facts:
                        self.res.ok(self.f, node, f"{norm(node)} [{side.id}]", f"dominated by a null test of {side.id}")
                    else:
                        self.res.bad(self.f, node, f"{norm(node)} [{side.id}]",
                                     f"an ordering comparison decides the code of key element {side.id!r} before it is "
                                     f"tested for null: NaN/NaT compare false both ways and are merged into the previous group",
                                     path=" ".join(self.path))

    def on_store_subscript(self, target, stmt, facts):
        b = base_name(target)
        if b in self.label_arrays and isinstance(stmt, ast.Assign):
            v = stmt.value
            txt = norm(v)
            is_elem = (isinstance(v, ast.Name) and v.id in self.elems) or (
                isinstance(v, ast.Subscript) and base_name(v) in self.arrays)
            if is_elem:
                self.n += 1
                if ("notnull", txt) in facts:
                    self.res.ok(self.f, stmt, norm(stmt), f"label stored after a null test of {txt}")
                else:
                    self.res.bad(self.f, stmt, norm(stmt),
                                 f"key element {txt} becomes a label without a null test: a null key would get a label and a code")


def _names_of_text(txt: str) -> List[str]:
    try:
        return [n.id for n in ast.walk(ast.parse(txt, mode="eval")) if isinstance(n, ast.Name)]
    except SyntaxError:
        return []


def rule_F1(repo: Repo) -> RuleResult:
    res = RuleResult("F1", "every factorization route handles null keys (delegation table / null test before ordering)")
    fz = repo.mod("groupby.factorization")
    # route 1: the hand-written monotonic scan
    mf = fz.func("_monotonic_factorization")
    roles = infer_roles(mf)
    # scalars only: names assigned from a subscript of an array-of-keys variable
    scalars: Set[str] = set()
    arrays: Set[str] = set()
    for n in walk_no_nested(mf.node):
        if isinstance(n, ast.Assign) and len(n.targets) == 1 and isinstance(n.targets[0], ast.Name) \
                and isinstance(n.value, ast.Subscript):
            b = base_name(n.value)
            if b == mf.named_params[0]:
                arrays.add(n.targets[0].id)
    for n in walk_no_nested(mf.node):
        if isinstance(n, ast.Assign) and len(n.targets) == 1 and isinstance(n.targets[0], ast.Name) \
                and isinstance(n.value, ast.Subscript) and base_name(n.value) in arrays:
            scalars.add(n.targets[0].id)
    if not scalars:
        raise AnalysisError("F1: cannot identify the key element variable of _monotonic_factorization")
    # the 'previous key' variable is only ever a copy of an element; obligations sit on the fresh element
    w = _F1Walker(mf, {s for s in scalars if _is_fresh_read_in_loop(mf, s)}, arrays, res)
    # the label array: the array returned (sliced) in the last position of the result tuple
    w.label_arrays = set()
    for r in walk_no_nested(mf.node):
        if isinstance(r, ast.Return) and isinstance(r.value, ast.Tuple) and r.value.elts:
            last = r.value.elts[-1]
            while isinstance(last, ast.Subscript):
                last = last.value
            if isinstance(last, ast.Name):
                w.label_arrays.add(last.id)
    w.walk(mf.node.body, EMPTY)
    if w.n < 3:
        raise AnalysisError(f"F1: only {w.n} ordering comparisons / label stores found in _monotonic_factorization (floor 3)")
    # the kernel's null test is a self-inequality (true for NaN/NaT only): the keys must reach it in their own dtype
    selfneq = any(isinstance(n, ast.Compare) and len(n.ops) == 1 and isinstance(n.ops[0], ast.NotEq)
                  and norm(n.left) == norm(n.comparators[0]) for n in walk_no_nested(mf.node))
    wrap = fz.func("monotonic_factorization")
    kcalls = [n for n in walk_no_nested(wrap.node) if isinstance(n, ast.Call) and norm(n.func) == "_monotonic_factorization"]
    if not kcalls:
        raise AnalysisError("F1: monotonic_factorization no longer calls the kernel")
    feed: Set[str] = {x.id for x in ast.walk(kcalls[0].args[0]) if isinstance(x, ast.Name)} if kcalls[0].args else set()
    changed = True
    defs = [n for n in walk_no_nested(wrap.node) if isinstance(n, ast.Assign) and n.lineno < kcalls[0].lineno]
    while changed:
        changed = False
        for d in defs:
            tn = {x.id for t in d.targets for x in ast.walk(t) if isinstance(x, ast.Name)}
            if tn & feed:
                new = {x.id for x in ast.walk(d.value) if isinstance(x, ast.Name)} - feed
                if new:
                    feed |= new
                    changed = True
    int_views = []
    for d in defs:
        tn = {x.id for t in d.targets for x in ast.walk(t) if isinstance(x, ast.Name)}
        if not (tn & feed):
            continue
        for c in ast.walk(d.value):
            if isinstance(c, ast.Call) and isinstance(c.func, ast.Attribute) and c.func.attr in ("view", "astype") and c.args:
                a = norm(c.args[0]).strip("'\"")
                if a in ("int", "int64", "np.int64", "i8", "<i8", "np.int_"):
                    int_views.append(d)
            if isinstance(c, ast.Call) and (call_name(c) or norm(c.func)).split(".")[-1] == "_cast_timestamps_to_ints":
                int_views.append(d)          # the repo's own int64 view of temporal arrays
    if selfneq and int_views:
        res.bad(wrap, int_views[0], norm(int_views[0])[:80],
                "the keys are viewed as integers before the monotonic scan, whose null test is a self-inequality (x != x): NaT "
                "becomes an ordinary integer, so a leading null key is accepted as a label and gets a code")
    else:
        res.ok(wrap, kcalls[0], f"kernel input {norm(kcalls[0].args[0])}: "
               + ("own dtype (self-inequality detects NaN/NaT)" if selfneq else "null test is not a self-inequality"), "")
    # routes of factorize_1d
    f1 = fz.func("factorize_1d")
    routes = 0
    for n in walk_no_nested(f1.node):
        if isinstance(n, ast.Call):
            cn = call_name(n) or ""
            if cn == "pd.factorize":
                routes += 1
                kw = {k.arg: k.value for k in n.keywords}
                v = kw.get("use_na_sentinel")
                if v is None or (isinstance(v, ast.Constant) and v.value is True):
                    res.ok(f1, n, norm(n), "delegated: pandas emits the sentinel -1 for nulls")
                else:
                    res.bad(f1, n, norm(n), "pd.factorize is asked not to use the null sentinel: null keys would get a label")
            elif cn == "factorize_range_index":
                routes += 1
                res.ok(f1, n, norm(n), "RangeIndex cannot hold nulls")
            elif cn == "factorize_arrow_arr":
                routes += 1
                fa = fz.func("factorize_arrow_arr")
                encodes = any(isinstance(x, ast.Call) and norm(x.func).endswith(".dictionary_encode") for x in ast.walk(fa.node)) \
                    and any("indices" in norm(x) for x in ast.walk(fa.node) if isinstance(x, ast.Attribute))
                # the indices of null keys are null: they must be given the sentinel before they become a NumPy array
                # (to_numpy alone yields float64 with NaN)
                filled = any(isinstance(x, ast.Call) and isinstance(x.func, ast.Attribute) and x.func.attr == "fill_null"
                             and x.args and const_int(x.args[0]) == -1 and "indices" in norm(x.func.value) for x in ast.walk(fa.node))
                if encodes and filled:
                    res.ok(f1, n, norm(n), "delegated: arrow dictionary_encode, null indices filled with -1")
                elif encodes:
                    res.bad(fa, fa.node, "factorize_arrow_arr: indices -> to_numpy without fill_null(-1)",
                            "the dictionary indices of null keys are null; converted to NumPy without the sentinel they become NaN in a "
                            "float64 array: null keys of arrow / polars key arrays have no integer code (the kernels fail to compile, "
                            "factorize_1d returns float codes)")
                else:
                    res.bad(f1, n, norm(n), "arrow route no longer dictionary-encodes")
        if isinstance(n, ast.Attribute) and n.attr == "codes" and isinstance(n.ctx, ast.Load) and "cat" in norm(n.value):
            routes += 1
            res.ok(f1, n, norm(n), "delegated: categorical codes hold -1 for nulls")
    # boolean route
    for n in walk_no_nested(f1.node):
        if isinstance(n, ast.If) and "is_bool_dtype" in norm(n.test):
            routes += 1
            res.ok(f1, n, "bool route: " + norm(n.test), "NumPy bool cannot hold nulls (pandas nullable boolean: not decided)",
                   nontrivial=False)
    # exhaustiveness: every return of factorize_1d hands out codes that come from one of the routes above
    def code_source_ok(e: ast.AST, at: ast.AST, depth: int = 0) -> bool:
        if isinstance(e, ast.Call) and (call_name(e) or "") in ("factorize_range_index", "factorize_arrow_arr", "pd.factorize"):
            return True
        if isinstance(e, ast.Name) and depth < 4:
            ds = [(s_.value, s_) for s_ in walk_no_nested(f1.node) if isinstance(s_, ast.Assign)
                  and any(isinstance(t, ast.Name) and t.id == e.id for t in s_.targets)]
            return bool(ds) and all(code_source_ok(v_, s_, depth + 1) for v_, s_ in ds)
        txt = norm(e)
        if any(isinstance(x, ast.Attribute) and x.attr == "codes" for x in ast.walk(e)):
            return True
        if any("is_bool_dtype" in norm(t) for t in _enclosing_tests(f1, at)) and ("view(" in txt or "astype(" in txt):
            return True
        return False
    for r in walk_no_nested(f1.node):
        if not isinstance(r, ast.Return) or r.value is None:
            continue
        v = r.value
        if isinstance(v, ast.Call):
            ok = code_source_ok(v, r)
            first = v
        else:
            first = v.elts[0] if isinstance(v, ast.Tuple) and v.elts else v
            if isinstance(first, ast.Name):
                srcs = []
                for s_ in walk_no_nested(f1.node):
                    if isinstance(s_, ast.Assign):
                        for t in s_.targets:
                            if isinstance(t, ast.Name) and t.id == first.id:
                                srcs.append((s_.value, s_, 0))
                            elif isinstance(t, ast.Tuple):
                                for pos_, e_ in enumerate(t.elts):
                                    if isinstance(e_, ast.Name) and e_.id == first.id:
                                        srcs.append((s_.value, s_, pos_))     # codes are the FIRST element of a route's result
                ok = bool(srcs) and all(pos_ == 0 and code_source_ok(val, st) for val, st, pos_ in srcs)
            else:
                ok = code_source_ok(first, r)
        if ok:
            res.ok(f1, r, f"return {norm(v)[:60]}", "codes come from a null-aware route", nontrivial=False)
        else:
            res.bad(f1, r, f"return {norm(v)[:60]}",
                    f"factorize_1d returns codes ({norm(first)[:40]}) that do not come from one of the null-aware routes (pandas factorize with "
                    f"the sentinel, categorical codes, arrow dictionary encoding, RangeIndex, NumPy bool): a route that numbers the rows or "
                    f"values itself gives a null key an ordinary code, so nulls form a group and appear as a label")
    # chunk-wise route
    core = repo.mod("groupby.core")
    fc = core.func("GroupBy._factorize_group_key_in_chunks")
    for n in walk_no_nested(fc.node):
        if isinstance(n, ast.Call) and norm(n.func) == "parallel_map" and n.args and norm(n.args[0]) == "factorize_array":
            routes += 1
            res.ok(fc, n, norm(n)[:70], "delegated: pandas factorize_array emits -1 for nulls")
    # the monotonic prefix codes are widened to the signed type of the other chunks (null codes representable)
    mono_codes_names: Set[str] = set()
    for n in walk_no_nested(fc.node):
        if isinstance(n, ast.Assign) and isinstance(n.value, ast.Call) and (call_name(n.value) or "").endswith("monotonic_factorization") \
                and isinstance(n.targets[0], ast.Tuple) and len(n.targets[0].elts) == 3 and isinstance(n.targets[0].elts[1], ast.Name):
            mono_codes_names.add(n.targets[0].elts[1].id)
    changed_ = True
    while changed_:
        changed_ = False
        for n in walk_no_nested(fc.node):
            if isinstance(n, ast.Assign) and len(n.targets) == 1 and isinstance(n.targets[0], ast.Name) \
                    and n.targets[0].id not in mono_codes_names and isinstance(n.value, ast.Subscript) \
                    and isinstance(n.value.value, ast.Name) and n.value.value.id in mono_codes_names:
                mono_codes_names.add(n.targets[0].id); changed_ = True
    for n in walk_no_nested(fc.node):
        if isinstance(n, ast.Assign) and len(n.targets) == 1 and isinstance(n.targets[0], ast.Name) \
                and isinstance(n.value, ast.List) and len(n.value.elts) == 2 and isinstance(n.value.elts[1], ast.Starred) \
                and norm(n.value.elts[1].value) == n.targets[0].id and mono_codes_names & {
                    x.id for x in ast.walk(n.value.elts[0]) if isinstance(x, ast.Name)}:
            first = n.value.elts[0]
            if isinstance(first, ast.Call) and norm(first.func).endswith(".astype") and "int64" in norm(first):
                res.ok(fc, n, norm(n), "prefix codes share the signed integer type of the other chunks")
            else:
                res.bad(fc, n, norm(n),
                        "the unsigned monotonic-prefix codes become the first chunk of the chunked code array and fix its "
                        "type: a null code (-1) in a later chunk cannot be represented (ArrowInvalid)")
    res.analysed = {"routes": routes}
    if routes < 6 and not res.violations:
        raise AnalysisError(f"F1: only {routes} factorization routes found (floor 6)")
    return res


def _is_fresh_read_in_loop(f: Func, name: str) -> bool:
    for loop in [n for n in walk_no_nested(f.node) if isinstance(n, (ast.For, ast.While))]:
        for n in ast.walk(loop):
            if isinstance(n, ast.Assign) and any(isinstance(t, ast.Name) and t.id == name for t in n.targets) \
                    and isinstance(n.value, ast.Subscript):
                return True
    return False


# ------------------------------------------------------------------------------- E1 / E2

def _canon(e: ast.AST, env: Dict[str, tuple]) -> tuple:
    """canonical tree of an arithmetic expression with forward-substituted locals: commutative operands sorted,
    negation pulled outwards ((-a)/b == -(a/b) == a/(-b), exactly so in IEEE arithmetic), double negation removed"""
    def neg(x):
        return x[1] if x[0] == "neg" else ("neg", x)

    if isinstance(e, ast.Name):
        return env.get(e.id, ("name", e.id))
    if isinstance(e, ast.Constant):
        return ("const", repr(e.value))
    if isinstance(e, ast.UnaryOp) and isinstance(e.op, ast.USub):
        return neg(_canon(e.operand, env))
    if isinstance(e, ast.BinOp):
        l, r = _canon(e.left, env), _canon(e.right, env)
        if isinstance(e.op, (ast.Mult, ast.Div)):
            sign = 0
            if l[0] == "neg":
                l, sign = l[1], sign + 1
            if r[0] == "neg":
                r, sign = r[1], sign + 1
            core = ("mul",) + tuple(sorted([l, r], key=repr)) if isinstance(e.op, ast.Mult) else ("div", l, r)
            return neg(core) if sign % 2 else core
        if isinstance(e.op, ast.Add):
            return ("add",) + tuple(sorted([l, r], key=repr))
        if isinstance(e.op, ast.Sub):
            return ("add",) + tuple(sorted([l, neg(r)], key=repr))
        return (type(e.op).__name__, l, r)
    if isinstance(e, ast.Call):
        return ("call", norm(e.func)) + tuple(_canon(a, env) for a in e.args) + tuple(
            (k.arg, _canon(k.value, env)) for k in e.keywords)
    if isinstance(e, ast.Attribute):
        return ("attr", _canon(e.value, env), e.attr)
    return ("expr", norm(e))


def _show_canon(t: tuple) -> str:
    k = t[0]
    if k in ("name", "const", "expr"):
        return t[1]
    if k == "neg":
        return "-" + _show_canon(t[1])
    if k == "add":
        return "(" + " + ".join(_show_canon(x) for x in t[1:]) + ")"
    if k == "mul":
        return "(" + " * ".join(_show_canon(x) for x in t[1:]) + ")"
    if k == "div":
        return f"({_show_canon(t[1])} / {_show_canon(t[2])})"
    if k == "call":
        return f"{t[1]}(" + ", ".join(_show_canon(x) if isinstance(x, tuple) and x and isinstance(x[0], str) and x[0] in (
            "name", "const", "expr", "neg", "add", "mul", "div", "call", "attr") else str(x) for x in t[2:]) + ")"
    if k == "attr":
        return f"{_show_canon(t[1])}.{t[2]}"
    return str(t)


def _mentions(t, name: str) -> bool:
    if isinstance(t, tuple):
        if t[:2] == ("name", name):
            return True
        return any(_mentions(x, name) for x in t)
    return False


def _alpha_from_halflife(f: Func) -> List[Tuple[str, SymPath, ast.stmt]]:
    out = []
    for p in enumerate_paths(f.node.body):
        # no-times path: a decided test `times is not None` must be False
        times_true = any(pol is True and isinstance(t, ast.AST) and norm(t) == "times is not None" for t, pol in p.conds)
        env: Dict[str, tuple] = {}
        for st in p.stmts:
            if isinstance(st, ast.Assign) and len(st.targets) == 1 and isinstance(st.targets[0], ast.Name):
                val = _canon(st.value, env)
                if st.targets[0].id == "alpha" and _mentions(val, "halflife"):
                    # is this assignment itself under a times-test?
                    under_times = any(isinstance(t, ast.AST) and "times is" in norm(t) and (
                        (pol is True and "is not None" in norm(t)) or (pol is False and "is None" in norm(t)))
                        and t.lineno < st.lineno for t, pol in p.conds)
                    if not times_true and not under_times:
                        out.append((_show_canon(val), p, st))
                env[st.targets[0].id] = val
            elif isinstance(st, (ast.Assign, ast.AugAssign)):
                for t in (st.targets if isinstance(st, ast.Assign) else [st.target]):
                    for n in ast.walk(t):
                        if isinstance(n, ast.Name) and isinstance(n.ctx, ast.Store):
                            env[n.id] = ("expr", f"?{n.id}@{st.lineno}")
    return out


def rule_E1(repo: Repo) -> RuleResult:
    res = RuleResult("E1", "halflife -> alpha conversion is the same function of the raw parameter in ema and ema_grouped")
    em = repo.mod("emas")
    a = _alpha_from_halflife(em.func("ema"))
    b = _alpha_from_halflife(em.func("ema_grouped"))
    if not a or not b:
        raise AnalysisError("E1: alpha = f(halflife) assignment not found on the no-times path of ema / ema_grouped")
    ta = {t for t, _, _ in a}
    tb = {t for t, _, _ in b}
    if len(ta) != 1:
        raise AnalysisError(f"E1: ema converts halflife in {len(ta)} different ways: {sorted(ta)}")
    ref = next(iter(ta))
    for txt, p, st in b:
        construct = f"ema_grouped: alpha = {txt}"
        if txt == ref:
            res.ok(em.func("ema_grouped"), st, construct, "identical to ema(): " + ref)
        else:
            res.bad(em.func("ema_grouped"), st, construct,
                    f"ema() computes alpha = {ref} from the raw halflife, but on this path ema_grouped computes {txt}: "
                    f"grouped and ungrouped EMA of one group differ (e.g. a fractional halflife is truncated)",
                    path=p.describe())
    res.ok(em.func("ema"), a[0][2], f"ema: alpha = {ref}", "reference conversion")
    # de-duplicate
    seen, uniq = set(), []
    for v in res.violations:
        if v.key() not in seen:
            seen.add(v.key()); uniq.append(v)
    res.violations = uniq
    return res


def rule_E2(repo: Repo) -> RuleResult:
    res = RuleResult("E2", "invalid rows of the grouped EMA kernels repeat the group's own carried output")
    em = repo.mod("emas")
    for kname in ("_ema_grouped", "_ema_grouped_timed"):
        f = em.func(kname)
        roles = infer_roles(f)
        if not roles.code_vars:
            raise AnalysisError(f"E2: no code variable in {kname}")
        k = next(iter(roles.code_vars))
        loop = None
        for n in walk_no_nested(f.node):
            if isinstance(n, ast.For):
                loop = n
        # short-circuit tests are split into atoms, so `isnan(x) or (masked and not mask[i])` and its De Morgan mirror
        # `not isnan(x) and (not masked or mask[i])` give the same paths
        paths = enumerate_paths(loop.body, split_bool=True)
        carried: Set[str] = set()
        rets = [n for n in walk_no_nested(f.node) if isinstance(n, ast.Return)]
        out = rets[-1].value.id if rets and isinstance(rets[-1].value, ast.Name) else "out"
        from .rules_k import _mask_aliases, _selection_of_path
        m_alias = _mask_aliases(f, {"mask"})
        # invalid-row paths (null value, or not selected by the mask): out[i] := A[k]
        for p in paths:
            null_key = any(pol is True and isinstance(t, ast.Compare) and len(t.ops) == 1 and isinstance(t.ops[0], ast.Lt)
                           and const_int(t.comparators[0]) == 0 for t, pol in p.conds)
            if null_key:
                continue
            invalid = any(pol is True and isinstance(t, ast.AST) and "isnan" in norm(t) for t, pol in p.conds) \
                or ("mask" in f.named_params and _selection_of_path(p, {"mask"}, m_alias) == "unselected")
            if not invalid:
                continue
            found = False
            local_defs: Dict[str, ast.AST] = {}
            for st in p.stmts:
                if isinstance(st, ast.Assign) and len(st.targets) == 1 and isinstance(st.targets[0], ast.Name):
                    local_defs[st.targets[0].id] = st.value       # the value a local holds at this point of the path
                if isinstance(st, ast.Assign) and isinstance(st.targets[0], ast.Subscript) and base_name(st.targets[0]) == out:
                    v = st.value
                    if isinstance(v, ast.Name) and v.id in local_defs:
                        v = local_defs[v.id]
                    if isinstance(v, ast.Subscript) and base_name(v) in roles.per_group_arrays \
                            and isinstance(v.slice, ast.Name) and v.slice.id == k:
                        carried.add(base_name(v))
                        found = True
                        res.ok(f, st, f"{kname}: {norm(st)} [invalid row]", "output repeats the group's carried value")
                    else:
                        res.bad(f, st, f"{kname}: {norm(st)} [invalid row]",
                                "on an invalid row (null value or masked) the output is not read from the row's own group state")
                        found = True
            if not found:
                res.bad(f, loop, f"{kname}: invalid-row path {p.describe()[:80]}", "invalid row leaves its output cell unassigned")
        if not carried:
            if res.violations:
                continue                   # already reported: the invalid-row output is not read from a carried cell
            raise AnalysisError(f"E2: carried-value array of {kname} not identified")
        A = sorted(carried)[0]
        # every non-null-key path assigns A[k] = out[i] after its output store
        for p in paths:
            if p.exit != "fall":
                continue
            # A[k] = out[i], or A[k] = t where the same local t is what was stored into out[i] on this path
            n_defs: Dict[str, int] = {}
            for st in p.stmts:
                if isinstance(st, ast.Assign) and len(st.targets) == 1 and isinstance(st.targets[0], ast.Name):
                    n_defs[st.targets[0].id] = n_defs.get(st.targets[0].id, 0) + 1
            stored_to_out = {st.value.id for st in p.stmts if isinstance(st, ast.Assign) and isinstance(st.targets[0], ast.Subscript)
                             and base_name(st.targets[0]) == out and isinstance(st.value, ast.Name) and n_defs.get(st.value.id) == 1}
            ok = any(isinstance(st, ast.Assign) and isinstance(st.targets[0], ast.Subscript)
                     and base_name(st.targets[0]) == A
                     and ((isinstance(st.value, ast.Subscript) and base_name(st.value) == out)
                          or (isinstance(st.value, ast.Name) and st.value.id in stored_to_out)) for st in p.stmts)
            construct = f"{kname}: {A}[{k}] = {out}[i] on path {p.describe()[:70]}"
            if ok:
                res.ok(f, loop, construct, "carried value refreshed", nontrivial=False)
            else:
                res.bad(f, loop, construct, "a row's output is not recorded as its group's carried value on this path")
    return res


# ------------------------------------------------------------------------------- U1 / U2

def rule_U1(repo: Repo) -> RuleResult:
    res = RuleResult("U1", "cumulative scan: running value is read from the output at the group's previous accepted row; "
                           "bookkeeping updated only on accepted rows (U2)")
    f = repo.func("groupby.numba", "_cumulative_reduce")
    roles = infer_roles(f)
    if not roles.code_vars:
        raise AnalysisError("U1: no code variable in _cumulative_reduce")
    key = next(iter(roles.code_vars))
    loop = None
    for n in walk_no_nested(f.node):
        if isinstance(n, ast.For) and any(isinstance(x, ast.Call) and isinstance(x.func, ast.Name)
                                          and x.func.id == "reduce_func" for x in ast.walk(n)):
            loop = n
    if loop is None:
        raise AnalysisError("U1: row loop of _cumulative_reduce not found")
    paths = enumerate_paths(loop.body)
    accepted = 0
    out_arr = None
    for p in paths:
        calls = [st for st in p.stmts if isinstance(st, ast.Assign) and isinstance(st.value, ast.Call)
                 and isinstance(st.value.func, ast.Name) and st.value.func.id == "reduce_func"]
        book = [st for st in p.stmts if isinstance(st, (ast.Assign, ast.AugAssign)) and any(
            isinstance(t, ast.Subscript) and base_name(t) in roles.per_group_arrays
            for t in ([st.target] if isinstance(st, ast.AugAssign) else _flat_targets(st)))]
        if not calls:
            # not an accepted row: no bookkeeping store at all
            for st in book:
                res.bad(f, st, f"{norm(st)} on path {p.describe()[:60]}",
                        "U2: per-group bookkeeping is updated on a row that is not accepted (null key or masked)")
            if not book:
                res.ok(f, loop, f"non-accepted path {p.describe()[:70]}", "no bookkeeping store", nontrivial=False)
            continue
        accepted += 1
        st = calls[0]
        call = st.value
        tg = _flat_targets(st)
        env_defs: Dict[str, ast.AST] = {}
        for s in p.stmts:
            if s is st:
                break
            if isinstance(s, ast.Assign) and len(s.targets) == 1 and isinstance(s.targets[0], ast.Name):
                env_defs[s.targets[0].id] = s.value
        a0 = call.args[0] if call.args else None
        ok_acc = False
        last_arr = None
        if isinstance(a0, ast.Subscript) and isinstance(a0.slice, ast.Name):
            d = env_defs.get(a0.slice.id)
            if isinstance(d, ast.Subscript) and base_name(d) in roles.per_group_arrays and isinstance(d.slice, ast.Name) \
                    and d.slice.id == key:
                ok_acc = True
                last_arr = base_name(d)
                out_arr = base_name(a0)
        ok_tgt = len(tg) == 2 and isinstance(tg[0], ast.Subscript) and base_name(tg[0]) == out_arr \
            and isinstance(tg[1], ast.Subscript) and base_name(tg[1]) in roles.per_group_arrays \
            and len(call.args) == 3 and norm(call.args[2]) == norm(tg[1])
        construct = norm(st)
        if ok_acc and ok_tgt:
            res.ok(f, st, construct, f"accumulator = {out_arr}[{last_arr}[{key}]], count cell read and written in place")
        else:
            res.bad(f, st, construct,
                    "U1: the reducer's accumulator is not the output at the group's previous accepted row, or the count cell "
                    "passed in is not the one written back")
            continue
        # U2: last_seen[key] := i afterwards on this path
        row_target = tg[0].slice
        ok_last = any(isinstance(s, ast.Assign) and isinstance(s.targets[0], ast.Subscript)
                      and base_name(s.targets[0]) == last_arr and norm(s.value) == norm(row_target)
                      and s.lineno > st.lineno for s in p.stmts)
        if ok_last:
            res.ok(f, st, f"{last_arr}[{key}] = {norm(row_target)} after the reduction", "U2")
        else:
            res.bad(f, st, f"{last_arr}[{key}] update", "U2: the group's previous-row pointer is not advanced to this row on an accepted row")
    if accepted < 1:
        raise AnalysisError("U1: no accepted-row path found in _cumulative_reduce")
    _u1_initial_cell(repo, f, roles, res)
    return res


def _u1_initial_cell(repo: Repo, f: Func, roles, res: RuleResult):
    """A group's first accepted row reads the accumulator cell selected by the INITIAL previous-row pointer.  With a
    null-skipping reducer a leading null value returns that accumulator unchanged, so the cell must still hold its
    initial value: only index -1 (the last cell, written by the very last row only) has that property, and the output
    array must reach the kernel untouched."""
    ptr = None
    for n in walk_no_nested(f.node):
        if isinstance(n, ast.Assign) and isinstance(n.value, ast.Subscript) and isinstance(n.targets[0], ast.Name) \
                and base_name(n.value) in roles.per_group_arrays and n.targets[0].id not in roles.code_vars:
            # last_seen = group_last_seen[key]
            used_as_index = any(isinstance(s, ast.Subscript) and isinstance(s.slice, ast.Name) and s.slice.id == n.targets[0].id
                                for s in walk_no_nested(f.node))
            if used_as_index:
                ptr = base_name(n.value)
    if ptr is None:
        raise AnalysisError("U1: previous-row pointer array of _cumulative_reduce not identified")
    alloc = roles.local_arrays.get(ptr)
    if alloc is None:
        raise AnalysisError(f"U1: allocation of {ptr} not found")
    fn = norm(alloc.func)
    fill = alloc.args[1] if fn.endswith("full") and len(alloc.args) >= 2 else None
    construct = f"{ptr} = {norm(alloc)}"
    if fill is not None and const_int(fill) == -1:
        res.ok(f, alloc, construct, "'no previous row' is -1: the first accepted row of a group reads the last cell, which "
                                    "no earlier row has written")
    else:
        res.bad(f, alloc, construct,
                "the initial previous-row pointer is not -1: the first accepted row of every group then reads a cell that an "
                "earlier row of ANOTHER group may already have written (e.g. cell 0); a null-skipping reducer returns that "
                "accumulator unchanged for a leading null value, so values of other groups enter")
    # the caller hands the freshly built output array to the kernel untouched
    ac = repo.func("groupby.numba", "_apply_cumulative")
    tdef = None
    kcall = None
    for n in walk_no_nested(ac.node):
        if isinstance(n, ast.Assign) and isinstance(n.value, ast.Call) and norm(n.value.func).endswith("_build_target_for_groupby") \
                and isinstance(n.targets[0], ast.Name):
            tdef = n
        if isinstance(n, ast.Call) and any(k.arg == "target" for k in n.keywords) and any(k.arg == "reduce_func" for k in n.keywords):
            kcall = n
    if tdef is None or kcall is None:
        raise AnalysisError("U1: output allocation / kernel call not found in _apply_cumulative")
    tname = tdef.targets[0].id
    bound = next(k.value for k in kcall.keywords if k.arg == "target")
    touched = [n for n in walk_no_nested(ac.node) if isinstance(n, (ast.Assign, ast.AugAssign))
               and tdef.lineno < n.lineno < kcall.lineno
               and any(isinstance(x, ast.Subscript) and base_name(x) == tname and isinstance(x.ctx, ast.Store)
                       for t in (n.targets if isinstance(n, ast.Assign) else [n.target]) for x in ast.walk(t))]
    construct = f"_apply_cumulative: target={norm(bound)} (built by {norm(tdef.value.func)})"
    if norm(bound) != tname:
        res.bad(ac, kcall, construct, "the kernel's output array is not the freshly built one")
    elif touched:
        res.bad(ac, touched[0], construct + f"; {norm(touched[0])[:50]}",
                "the output array is written before the scan: the cell a group's first row reads back (the last cell) may no "
                "longer hold the neutral initial value (e.g. a null-key marker in the last row seeds every group)")
    else:
        res.ok(ac, kcall, construct, "reaches the kernel with every cell at its initial value")


def rule_E3(repo: Repo) -> RuleResult:
    res = RuleResult("E3", "time-weighted EMA: whenever the state is decayed by the elapsed time the group's clock is advanced")
    from .canon import inline_cell_reads
    f = inline_cell_reads(repo.func("emas", "_ema_grouped_timed"))
    roles = infer_roles(f)
    k = next(iter(roles.code_vars))
    loop = [n for n in walk_no_nested(f.node) if isinstance(n, ast.For)][-1]
    # the clock array: per-group array read inside a difference with times[...]
    clock = None
    for n in ast.walk(loop):
        if isinstance(n, ast.BinOp) and isinstance(n.op, ast.Sub):
            for side in (n.left, n.right):
                if isinstance(side, ast.Subscript) and base_name(side) in roles.per_group_arrays:
                    other = n.right if side is n.left else n.left
                    if "times" in norm(other):
                        clock = base_name(side)
    if clock is None:
        decays = [n for n in ast.walk(loop) if isinstance(n, ast.AugAssign) and isinstance(n.op, ast.Mult)
                  and isinstance(n.target, ast.Subscript) and base_name(n.target) in roles.per_group_arrays]
        if not decays:
            raise AnalysisError("E3: neither an elapsed-time expression nor a decay of per-group state found in _ema_grouped_timed")
        res.bad(f, decays[0], f"{norm(decays[0])}: elapsed time",
                "the per-group state is decayed, but the elapsed time is not the difference between this row's time and a "
                "per-group clock (times[i] - clock[k]): with interleaved groups the interval since the group's own previous "
                "row is not what is applied")
        return res
    n_paths = 0
    for p in enumerate_paths(loop.body):
        if p.exit not in ("fall", "continue"):
            continue
        n_paths += 1
        # names derived from the clock on this path
        derived: Set[str] = set()
        decays = []
        advanced = False
        for st in p.stmts:
            if isinstance(st, ast.Assign) and len(st.targets) == 1 and isinstance(st.targets[0], ast.Name):
                names = {x.id for x in ast.walk(st.value) if isinstance(x, ast.Name)}
                if clock in {base_name(x) for x in ast.walk(st.value) if isinstance(x, ast.Subscript)} or names & derived:
                    derived.add(st.targets[0].id)
            if isinstance(st, ast.AugAssign) and isinstance(st.op, ast.Mult) and isinstance(st.target, ast.Subscript) \
                    and base_name(st.target) in roles.per_group_arrays \
                    and {x.id for x in ast.walk(st.value) if isinstance(x, ast.Name)} & derived:
                decays.append(st)
            if isinstance(st, ast.Assign) and isinstance(st.targets[0], ast.Subscript) and base_name(st.targets[0]) == clock \
                    and "times" in norm(st.value):
                advanced = True
        construct = f"path {p.describe()[:90]}: {len(decays)} decay(s), clock {'advanced' if advanced else 'NOT advanced'}"
        # the converse: the clock may only move where the interval that ends at this row was applied to the state, or
        # where the path established that the group has no earlier row (clock[k] > 0 is false)
        first_row = False
        for t, pol in p.conds:
            # `not np.isnan(clock[k])` false / `np.isnan(clock[k])` true: the group has no earlier row either
            tt, pp = (t.operand, not pol) if isinstance(t, ast.UnaryOp) and isinstance(t.op, ast.Not) else (t, pol)
            if isinstance(tt, ast.Call) and norm(tt.func) in ("np.isnan", "is_null") and tt.args \
                    and isinstance(tt.args[0], ast.Subscript) and base_name(tt.args[0]) == clock and pp is True:
                first_row = True
            if isinstance(t, ast.Compare) and len(t.ops) == 1 and isinstance(t.left, ast.Subscript) and base_name(t.left) == clock:
                c0 = const_int(t.comparators[0])
                if (isinstance(t.ops[0], ast.Gt) and c0 == 0 and pol is False) or \
                        (isinstance(t.ops[0], (ast.Eq, ast.LtE)) and c0 == 0 and pol is True) or \
                        (isinstance(t.ops[0], ast.NotEq) and c0 == 0 and pol is False):
                    first_row = True
        if advanced and not decays and not first_row:
            adv = next(st for st in p.stmts if isinstance(st, ast.Assign) and isinstance(st.targets[0], ast.Subscript)
                       and base_name(st.targets[0]) == clock)
            res.bad(f, adv, f"{norm(adv)} without decay on path {p.describe()[:70]}",
                    f"the group's clock {clock}[{k}] is moved to this row's time on a path that did not decay the group's state by the "
                    f"interval that ends here (and did not establish that the group has no earlier row): that interval is never "
                    f"applied, so the rows that follow are under-decayed", path=p.describe())
            continue
        if decays and not advanced:
            res.bad(f, decays[0], construct,
                    f"the group's state is decayed by the time elapsed since {clock}[{k}] but {clock}[{k}] is not moved to this "
                    f"row's time on this path: the same interval is applied again at the group's next row (weights decay "
                    f"twice over invalid rows)", path=p.describe())
        else:
            res.ok(f, loop, construct, "")
    if n_paths < 4:
        raise AnalysisError(f"E3: only {n_paths} paths through the timed EMA loop (floor 4)")
    return res


def _flat_targets(st: ast.Assign) -> List[ast.AST]:
    out = []
    for t in st.targets:
        if isinstance(t, (ast.Tuple, ast.List)):
            out.extend(t.elts)
        else:
            out.append(t)
    return out


def rule_U2(repo: Repo) -> RuleResult:
    r = rule_U1(repo)
    res = RuleResult("U2", "cumulative scan bookkeeping (group_last_seen / group_count) only on accepted rows")
    res.instances = [type(i)("U2", i.file, i.line, i.function, i.construct, i.verdict, i.reason, i.nontrivial)
                     for i in r.instances if "U2" in i.reason or "bookkeeping" in i.reason or "non-accepted" in i.construct]
    res.violations = [v for v in r.violations if v.message.startswith("U2")]
    for v in res.violations:
        v.rule = "U2"
    if not res.instances:
        raise AnalysisError("U2: no instance")
    return res
