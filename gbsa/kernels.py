"""Role inference for numba kernels: code variables, codes arrays, row positions, per-group arrays.

Template (DESIGN.md K1): a variable ``k`` is a *code variable* if it is defined from an element of
an array parameter (transitively through lists of arrays, by subscript, or as a loop target over
the parameter / zip / enumerate) or from a call of a repo kernel, and is used as the first index of
another array.  The array it is read from is the *codes array*.  A candidate that indexes the
codes array of another candidate is a *row position* instead.
"""
from __future__ import annotations

import ast
from dataclasses import dataclass, field
from typing import Dict, List, Optional, Set, Tuple

from .model import Func, walk_no_nested


@dataclass
class KernelRoles:
    func: Func
    params: List[str]
    elem_of: Dict[str, str] = field(default_factory=dict)       # name -> param it is an element of (transitively)
    code_vars: Dict[str, str] = field(default_factory=dict)     # code var -> source ("param" or "call:<name>")
    row_positions: Set[str] = field(default_factory=set)
    codes_arrays: Set[str] = field(default_factory=set)
    per_group_arrays: Set[str] = field(default_factory=set)
    row_aligned_arrays: Set[str] = field(default_factory=set)
    local_arrays: Dict[str, ast.AST] = field(default_factory=dict)  # local name -> allocation expr
    counters: Set[str] = field(default_factory=set)             # enumerate counters / range vars / manual counters
    aliases: Dict[str, str] = field(default_factory=dict)


def first_index_names(sub: ast.Subscript) -> List[str]:
    """Names appearing in the *first* index position of a subscript."""
    sl = sub.slice
    if isinstance(sl, ast.Tuple) and sl.elts:
        sl = sl.elts[0]
    return [n.id for n in ast.walk(sl) if isinstance(n, ast.Name)]


def all_index_names(sub: ast.Subscript) -> List[str]:
    return [n.id for n in ast.walk(sub.slice) if isinstance(n, ast.Name)]


def base_name(sub: ast.Subscript) -> Optional[str]:
    v = sub.value
    while isinstance(v, ast.Subscript):
        v = v.value
    if isinstance(v, ast.Name):
        return v.id
    return None


def _strip_slices(e: ast.AST) -> ast.AST:
    """codes[:-1] -> codes ; arr[i + 1:] -> arr (slicing an array keeps 'element-of')."""
    while isinstance(e, ast.Subscript) and isinstance(e.slice, ast.Slice):
        e = e.value
    return e


def _bind_loop_target(target: ast.AST, it: ast.AST, bind, counters: Set[str]):
    """Match a for-target against its iterable; call bind(name, source_expr) for element bindings."""
    it = _strip_slices(it)
    if isinstance(it, ast.Call) and isinstance(it.func, ast.Name):
        fn = it.func.id
        if fn == "enumerate" and isinstance(target, ast.Tuple) and len(target.elts) == 2:
            cnt, el = target.elts
            if isinstance(cnt, ast.Name):
                counters.add(cnt.id)
            if it.args:
                _bind_loop_target(el, it.args[0], bind, counters)
            return
        if fn == "zip" and isinstance(target, ast.Tuple) and len(target.elts) == len(it.args):
            for t, a in zip(target.elts, it.args):
                _bind_loop_target(t, a, bind, counters)
            return
        if fn in ("range",) or (isinstance(it.func, ast.Name) and fn == "prange"):
            for n in ast.walk(target):
                if isinstance(n, ast.Name):
                    counters.add(n.id)
            return
    if isinstance(it, ast.Call) and isinstance(it.func, ast.Attribute) and it.func.attr in ("prange", "range"):
        for n in ast.walk(target):
            if isinstance(n, ast.Name):
                counters.add(n.id)
        return
    if isinstance(target, ast.Name) and isinstance(it, ast.Name):
        bind(target.id, it.id)


def infer_roles(func: Func) -> KernelRoles:
    params = func.named_params
    roles = KernelRoles(func, params)
    pset = set(params)
    elem_of: Dict[str, str] = {}       # name -> root param
    direct_src: Dict[str, str] = {}    # name -> immediate array it was read from
    call_defined: Dict[str, str] = {}
    counters: Set[str] = set()
    aliases: Dict[str, str] = {}

    def root(name: str) -> Optional[str]:
        if name in pset:
            return name
        return elem_of.get(name)

    # iterate to a fixpoint so that nested "for arr in P: for k in arr" resolves
    for _ in range(4):
        changed = False

        def bind(name: str, src: str):
            nonlocal changed
            r = root(src)
            if r is not None and elem_of.get(name) != r:
                if name in pset:
                    return
                elem_of[name] = r
                direct_src[name] = src
                changed = True

        for n in walk_no_nested(func.node):
            if isinstance(n, (ast.For, ast.AsyncFor)):
                _bind_loop_target(n.target, n.iter, bind, counters)
            elif isinstance(n, ast.Assign) and len(n.targets) == 1:
                t, v = n.targets[0], n.value
                if isinstance(t, ast.Name):
                    vv = _strip_slices(v)
                    if isinstance(vv, ast.Subscript):
                        b = base_name(vv)
                        if b is not None and root(b) is not None:
                            bind(t.id, b)
                    elif isinstance(v, ast.Call):
                        nm = v.func.id if isinstance(v.func, ast.Name) else None
                        if nm and nm not in ("len", "range", "int", "float", "abs", "min", "max"):
                            call_defined[t.id] = nm
                    elif isinstance(v, ast.Name):
                        if v.id in elem_of or v.id in call_defined:
                            aliases[t.id] = v.id
            elif isinstance(n, ast.AugAssign) and isinstance(n.target, ast.Name):
                if isinstance(n.op, (ast.Add, ast.Sub)) and isinstance(n.value, ast.Constant):
                    counters.add(n.target.id)
        if not changed:
            break

    # local array allocations (np.zeros / np.full / np.empty / x.copy() / np.zeros_like ...)
    for n in walk_no_nested(func.node):
        if isinstance(n, ast.Assign) and len(n.targets) == 1 and isinstance(n.targets[0], ast.Name):
            v = n.value
            if isinstance(v, ast.Call):
                c = v.func
                nm = c.attr if isinstance(c, ast.Attribute) else (c.id if isinstance(c, ast.Name) else "")
                if nm in ("zeros", "full", "empty", "ones", "zeros_like", "empty_like", "full_like",
                          "ones_like", "copy", "arange", "astype"):
                    roles.local_arrays.setdefault(n.targets[0].id, v)

    # uses as index
    idx_arrays: Dict[str, Set[str]] = {}
    for n in walk_no_nested(func.node):
        if isinstance(n, ast.Subscript):
            b = base_name(n)
            if b is None:
                continue
            for nm in first_index_names(n):
                idx_arrays.setdefault(nm, set()).add(b)

    cand: Dict[str, str] = {}
    for name, r in elem_of.items():
        if name in idx_arrays:
            cand[name] = direct_src.get(name, r)
    for name, fn in call_defined.items():
        if name in idx_arrays and name not in cand:
            cand[name] = "call:" + fn
    for a, b in aliases.items():
        if a in idx_arrays and b in cand:
            cand[a] = cand[b]

    srcs = {v: s for v, s in cand.items() if not s.startswith("call:")}
    # candidate that indexes the source array of another candidate -> row position
    row_pos: Set[str] = set()
    for v in list(cand):
        others = {root(s) or s for u, s in srcs.items() if u != v} | {s for u, s in srcs.items() if u != v}
        if idx_arrays.get(v, set()) & others:
            row_pos.add(v)
    code_vars = {v: s for v, s in cand.items() if v not in row_pos}
    # an element of an array that is never used to index anything else is not a code variable
    codes_arrays = set()
    for v, s in code_vars.items():
        if not s.startswith("call:"):
            codes_arrays.add(s)
            r = root(s)
            if r:
                codes_arrays.add(r)
    # every name that indexes a codes array is a row position
    for nm, arrs in idx_arrays.items():
        if arrs & codes_arrays and nm not in code_vars:
            row_pos.add(nm)
    row_aligned = set()
    per_group = set()
    for nm, arrs in idx_arrays.items():
        if nm in row_pos:
            row_aligned |= arrs
    for v in code_vars:
        per_group |= idx_arrays.get(v, set())
    per_group -= row_aligned
    per_group -= codes_arrays

    roles.elem_of = elem_of
    roles.code_vars = code_vars
    roles.row_positions = row_pos
    roles.codes_arrays = codes_arrays
    roles.per_group_arrays = per_group
    roles.row_aligned_arrays = row_aligned
    roles.counters = counters
    roles.aliases = aliases
    return roles


def const_int(node: ast.AST) -> Optional[int]:
    if isinstance(node, ast.Constant) and isinstance(node.value, int) and not isinstance(node.value, bool):
        return node.value
    if isinstance(node, ast.UnaryOp) and isinstance(node.op, ast.USub):
        v = const_int(node.operand)
        return -v if v is not None else None
    return None


def code_guard_facts(test: ast.expr) -> Tuple[Set[tuple], Set[tuple]]:
    """Facts ('ge0', name) established by a comparison of a name with -1 / 0."""
    pos: Set[tuple] = set()
    neg: Set[tuple] = set()
    if not isinstance(test, ast.Compare) or len(test.ops) != 1:
        return pos, neg
    l, op, r = test.left, test.ops[0], test.comparators[0]
    name = None
    cval = None
    flipped = False
    if isinstance(l, ast.Name) and const_int(r) is not None:
        name, cval = l.id, const_int(r)
    elif isinstance(r, ast.Name) and const_int(l) is not None:
        name, cval, flipped = r.id, const_int(l), True
    if name is None:
        return pos, neg
    # normalise to "name OP cval"
    if flipped:
        op = {ast.Lt: ast.Gt, ast.Gt: ast.Lt, ast.LtE: ast.GtE, ast.GtE: ast.LtE,
              ast.Eq: ast.Eq, ast.NotEq: ast.NotEq}.get(type(op), type(None))()
    ge0 = ("ge0", name)
    if isinstance(op, ast.Lt) and cval == 0:
        neg.add(ge0)
    elif isinstance(op, ast.LtE) and cval == -1:
        neg.add(ge0)
    elif isinstance(op, ast.Eq) and cval == -1:
        neg.add(ge0)          # accepted idiom: -1 is the only null code (K2 proves producers emit -1)
    elif isinstance(op, ast.NotEq) and cval == -1:
        pos.add(ge0)
    elif isinstance(op, ast.GtE) and cval == 0:
        pos.add(ge0)
    elif isinstance(op, ast.Gt) and cval == -1:
        pos.add(ge0)
    return pos, neg
