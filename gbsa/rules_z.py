"""Rules added after the second round of independent seeded changes (round 2).  Each states one structural necessary
condition that a confirmed seeded change violated without any existing rule noticing.

W4    the whole buffer row of a group is scanned only when the buffer is full (unwritten slots hold a placeholder)
E6    EMA dispatch table: ema -> ungrouped kernels, ema_grouped -> grouped kernels (never across)
E7    the per-group clock of the timed EMA kernel holds the integer timestamps exactly (integer dtype)
P24   .asi8 is taken only after an explicit unit normalisation (.as_unit)
P25   a time zone is never removed by tz_localize(None) (wall-clock readings instead of instants)
M9    the merge target of the chunked path takes its dtype from the partials it merges
D7c   the sum is cast to float64 before it is squared in var
P15b  margin subtotals group observed combinations only and the margin grid is filled with an integer-preserving value
A3y   crosstab passes the requested margin LEVELS (derived from the row/column level split), not a flag
P21   head/tail/nth take the caller's values unmodified (no numeric filtering / timestamp conversion)
P22   check_if_func_is_non_reduce doubles a one-element input by tiling it
A9    the facade never re-aligns grouping keys (no reindex / align)
D5b   per-thread partial results of reduce_1d keep the dtype the reducer produced
P23   bools_to_categorical packs and decodes the same frame
"""
from __future__ import annotations

import ast
from typing import Dict, List, Optional, Set, Tuple

from .kernels import base_name, const_int, infer_roles
from .model import AnalysisError, Func, Repo, attr_chain, call_name, norm, walk_no_nested
from .paths import enumerate_paths, infeasible
from .report import RuleResult

CORE = "groupby.core"
NB = "groupby.numba"
API = "groupby.api"


def _names(e: ast.AST) -> Set[str]:
    return {n.id for n in ast.walk(e) if isinstance(n, ast.Name)}


# ------------------------------------------------------------------------------------------------ W4

def rule_W4(repo: Repo) -> RuleResult:
    from .rules_y import _window_roles, _accepted_paths
    res = RuleResult("W4", "rolling max/min: the whole buffer row is rescanned only when the buffer is full")
    f = repo.func(NB, "_rolling_max_or_min_1d")
    roles, buf, pos, parr, window, loop = _window_roles(f)
    full_names = {s.targets[0].id for s in walk_no_nested(f.node) if isinstance(s, ast.Assign) and len(s.targets) == 1
                  and isinstance(s.targets[0], ast.Name) and isinstance(s.value, ast.Compare)
                  and isinstance(s.value.comparators[0], ast.Name) and s.value.comparators[0].id == window}
    n = 0
    for p in _accepted_paths(f, loop):
        reads = [st for st in p.stmts for x in ast.walk(st) if isinstance(x, ast.Subscript) and isinstance(x.ctx, ast.Load)
                 and isinstance(x.value, ast.Name) and x.value.id == buf and not isinstance(x.slice, ast.Tuple)]
        if not reads:
            continue
        n += 1
        full = False
        for t, pol in p.conds:
            if not isinstance(t, ast.AST) or pol is not True:
                continue
            parts = t.values if isinstance(t, ast.BoolOp) and isinstance(t.op, ast.And) else [t]
            if any(isinstance(v, ast.Name) and v.id in full_names for v in parts):
                full = True
        construct = f"{norm(reads[0])[:60]} on {p.describe()[:70]}"
        if full:
            res.ok(f, reads[0], construct, "the buffer is full: every slot holds a row of the window")
        else:
            res.bad(f, reads[0], construct,
                    "the group's whole buffer row is scanned on a path that did not establish that the buffer is full: slots that "
                    "were never written still hold the placeholder (for temporal data the int64-min sentinel, which wins a "
                    "minimum), so rows before the window first fills come out null although min_periods values are present",
                    path=p.describe())
    if n < 1:
        raise AnalysisError("W4: no rescan of the buffer row found in _rolling_max_or_min_1d")
    seen, uniq = set(), []
    for v in res.violations:
        if v.key() not in seen:
            seen.add(v.key()); uniq.append(v)
    res.violations = uniq
    return res


# ------------------------------------------------------------------------------------------------ E6 / E7 / P24 / P25

EMA_UNGROUPED = {"_ema_adjusted", "_ema_unadjusted", "_ema_time_weighted"}
EMA_GROUPED = {"_ema_grouped", "_ema_grouped_timed"}


def rule_E6(repo: Repo) -> RuleResult:
    res = RuleResult("E6", "EMA dispatch: ema -> ungrouped kernels, ema_grouped -> grouped kernels")
    em = repo.mod("emas")
    for fname, allowed, other in (("ema", EMA_UNGROUPED, EMA_GROUPED), ("ema_grouped", EMA_GROUPED, EMA_UNGROUPED)):
        f = em.func(fname)
        called = {(call_name(c) or "") for c in walk_no_nested(f.node) if isinstance(c, ast.Call)}
        hit = called & (EMA_UNGROUPED | EMA_GROUPED)
        if not hit & allowed:
            raise AnalysisError(f"E6: {fname} no longer calls any of {sorted(allowed)}")
        for k in sorted(hit):
            node = next(c for c in walk_no_nested(f.node) if isinstance(c, ast.Call) and call_name(c) == k)
            if k in allowed:
                res.ok(f, node, f"{fname} -> {k}", "")
            else:
                res.bad(f, node, f"{fname} -> {k}",
                        f"{fname} dispatches to {k}, a kernel of the {'un' if k in EMA_UNGROUPED else ''}grouped family: the two "
                        f"families differ before the first valid observation (0.0 vs null) and in their handling of null keys / masks, "
                        f"so the result of a group depends on how many groups there are")
    return res


def rule_E7(repo: Repo) -> RuleResult:
    res = RuleResult("E7", "timed EMA: the per-group clock holds the integer timestamps exactly")
    from .canon import inline_cell_reads
    f = inline_cell_reads(repo.func("emas", "_ema_grouped_timed"))
    roles = infer_roles(f)
    clock = None
    for n in walk_no_nested(f.node):
        if isinstance(n, ast.BinOp) and isinstance(n.op, ast.Sub):
            for side, other in ((n.left, n.right), (n.right, n.left)):
                if isinstance(side, ast.Subscript) and base_name(side) in roles.per_group_arrays \
                        and isinstance(other, ast.Subscript) and base_name(other) in f.named_params:
                    clock = base_name(side)
    if clock is None:
        raise AnalysisError("E7: clock array of _ema_grouped_timed not found")
    alloc = [s for s in walk_no_nested(f.node) if isinstance(s, ast.Assign) and len(s.targets) == 1
             and isinstance(s.targets[0], ast.Name) and s.targets[0].id == clock and isinstance(s.value, ast.Call)]
    if not alloc:
        raise AnalysisError("E7: allocation of the clock array not found")
    dt = next((k.value for k in alloc[0].value.keywords if k.arg == "dtype"), None)
    txt = norm(dt) if dt is not None else ""
    fill_float = any(isinstance(a, ast.Attribute) and a.attr in ("nan", "inf") for a in ast.walk(alloc[0].value))
    construct = norm(alloc[0])
    if ("int" in txt or ".dtype" in txt) and "float" not in txt and not fill_float:
        res.ok(f, alloc[0], construct, "integer clock: nanosecond timestamps are kept exactly")
    else:
        res.bad(f, alloc[0], construct,
                "the per-group clock that stores the previous timestamp is not an integer array: nanosecond timestamps above 2^53 "
                "are rounded (256 ns spacing today), so the elapsed time and hence the decay differ from the ungrouped kernel")
    return res


def rule_P24(repo: Repo) -> RuleResult:
    """`.asi8` yields integers in the object's own resolution (pandas 3 infers s / ms / us / ns per object): two objects are
    comparable through .asi8 only after an explicit `.as_unit(...)`.  `.tz_localize(None)` keeps wall-clock readings: elapsed
    time across a UTC-offset change is wrong; a zone is removed with tz_convert(None) / the repo's conversion helper."""
    res = RuleResult("P24", "temporal integer views: .asi8 only after .as_unit(..); zones never dropped with tz_localize(None)")
    n = 0
    for f in repo.all_functions():
        if f.module.name not in (CORE, NB, "util", "emas", "nanops", "groupby.factorization", API):
            continue
        for x in walk_no_nested(f.node):
            if isinstance(x, ast.Attribute) and x.attr == "asi8":
                n += 1
                if any(isinstance(c, ast.Call) and isinstance(c.func, ast.Attribute) and c.func.attr == "as_unit" for c in ast.walk(x.value)):
                    res.ok(f, x, f"{f.qualname}: {norm(x)[:70]}", "unit fixed explicitly")
                else:
                    res.bad(f, x, f"{f.qualname}: {norm(x)[:70]}",
                            ".asi8 is taken in the object's own resolution without an explicit .as_unit(...): values and edges / "
                            "timestamps and half-lives of different resolutions are then compared as raw integers")
            if isinstance(x, ast.Call) and isinstance(x.func, ast.Attribute) and x.func.attr == "tz_localize" and x.args \
                    and isinstance(x.args[0], ast.Constant) and x.args[0].value is None:
                n += 1
                res.bad(f, x, f"{f.qualname}: {norm(x)[:70]}",
                        "tz_localize(None) drops the zone from wall-clock readings: the instants are no longer UTC, so elapsed times "
                        "across a daylight-saving change are off by the offset difference")
    # the repo's own conversion helper must go through UTC instants
    h = repo.func("util", "_convert_timestamp_to_tz_unaware")
    res.ok(h, h.node, "util._convert_timestamp_to_tz_unaware is the conversion used by the package", "", nontrivial=False)
    return res


# ------------------------------------------------------------------------------------------------ M9

def rule_M9(repo: Repo) -> RuleResult:
    res = RuleResult("M9", "chunked merge: the merge target takes its dtype from the partials it merges")
    f = repo.func(CORE, "GroupBy._apply_gb_func_across_chunked_group_keys")
    n = 0
    for loop in [l for l in walk_no_nested(f.node) if isinstance(l, ast.For)]:
        allocs = [s for s in loop.body if isinstance(s, ast.Assign) and isinstance(s.value, ast.Call)
                  and (call_name(s.value) or "").endswith("_build_target_for_groupby")]
        inner = [l2 for l2 in loop.body if isinstance(l2, ast.For)
                 and any(isinstance(c, ast.Call) and (call_name(c) or "").endswith("reduce_array_pair") for c in ast.walk(l2))]
        if not allocs or not inner:
            continue
        n += 1
        merged = inner[0].iter
        if isinstance(merged, ast.Call) and norm(merged.func) in ("enumerate", "zip") and merged.args:
            merged = merged.args[0]
        src = allocs[0].value.args[0] if allocs[0].value.args else None
        base = src
        while isinstance(base, (ast.Attribute, ast.Subscript)):
            base = base.value
        construct = f"{norm(allocs[0])[:90]} / merged: {norm(merged)}"
        if isinstance(base, ast.Name) and isinstance(merged, ast.Name) and base.id == merged.id:
            res.ok(f, allocs[0], construct, "dtype of the column's own partial results")
        else:
            res.bad(f, allocs[0], construct,
                    f"the merge target of a value column is allocated with the dtype of {norm(src) if src is not None else '?'} while "
                    f"the partials merged into it are {norm(merged)}: with several value columns of different dtypes every column "
                    f"after the first is merged into a target of the first column's dtype (floats truncated to ints, ints rounded)")
    if n < 1:
        raise AnalysisError("M9: merge loop of the chunked path not found")
    return res


# ------------------------------------------------------------------------------------------------ D7c

def rule_D7c(repo: Repo) -> RuleResult:
    res = RuleResult("D7c", "var: the group sums are cast to float64 before they are squared")
    var = repo.func(CORE, "GroupBy.var")
    from .canon import subst_single_defs
    # `s = self.sum(..).to_numpy().astype(np.float64); sum_sq = s ** 2`: a local stands for its single definition
    sq = [(x, subst_single_defs(var, x.left)) for x in walk_no_nested(var.node) if isinstance(x, ast.BinOp) and isinstance(x.op, ast.Pow)
          and const_int(x.right) == 2]
    sq += [(x, subst_single_defs(var, x.left)) for x in walk_no_nested(var.node) if isinstance(x, ast.BinOp) and isinstance(x.op, ast.Mult)
           and norm(x.left) == norm(x.right)]
    sq = [(x, left) for x, left in sq if ".sum(" in norm(left)]
    if not sq:
        raise AnalysisError("D7c: squared sum not found in GroupBy.var")
    for x, left in sq:
        t = norm(left)
        ok = any(isinstance(c, ast.Call) and isinstance(c.func, ast.Attribute) and c.func.attr == "astype" and c.args
                 and norm(c.args[0]).strip("'\"") in ("np.float64", "float", "float64", "np.float_", "np.double")
                 for c in ast.walk(left))
        if ok:
            res.ok(var, x, t[:80], "squared in float64")
        else:
            res.bad(var, x, t[:80],
                    "the per-group sums are squared in their own dtype: for integer values (sum)^2 overflows int64 from sums of "
                    "about 3e9 on, and a pandas object squares label-aligned instead of positionally; the sums must be cast to "
                    "float64 before squaring")
    return res


# ------------------------------------------------------------------------------------------------ P15b / A3y

def rule_P15b(repo: Repo) -> RuleResult:
    res = RuleResult("P15b", "margin subtotals group observed combinations only; the margin grid is filled with an integer-preserving value")
    f = repo.func(CORE, "add_row_margin")
    n = 0
    for c in walk_no_nested(f.node):
        if isinstance(c, ast.Call) and isinstance(c.func, ast.Attribute) and c.func.attr == "groupby":
            n += 1
            ob = next((k.value for k in c.keywords if k.arg == "observed"), None)
            if isinstance(ob, ast.Constant) and ob.value is True:
                res.ok(f, c, norm(c)[:80], "observed=True")
            else:
                res.bad(f, c, norm(c)[:80],
                        "the per-level subtotal is computed with observed != True: with a categorical key pandas expands it to every "
                        "category combination, so 'All' rows appear for label combinations that have no rows at all")
        if isinstance(c, ast.Call) and isinstance(c.func, ast.Attribute) and c.func.attr == "reindex":
            n += 1
            fv = next((k.value for k in c.keywords if k.arg == "fill_value"), None)
            if fv is not None and const_int(fv) is not None:
                res.ok(f, c, norm(c)[:80], "integer fill keeps integer results integer")
            else:
                res.bad(f, c, norm(c)[:80],
                        "the margin grid is built by a reindex without an integer fill_value: the missing cells become NaN and "
                        "every integer result is carried through float64 (values above 2^53 are rounded even if cast back)")
    if n < 2:
        raise AnalysisError(f"P15b: groupby / reindex of add_row_margin not found ({n})")
    return res


def rule_A3y(repo: Repo) -> RuleResult:
    res = RuleResult("A3y", "crosstab hands the requested margin LEVELS to the grouping, derived from the row/column level split")
    f = repo.func(CORE, "crosstab")
    # locals derived from slices of the level list
    level_lists: Set[str] = set()
    for s in walk_no_nested(f.node):
        if isinstance(s, ast.Assign) and isinstance(s.value, ast.Call) and norm(s.value.func) == "list" and s.value.args \
                and isinstance(s.value.args[0], ast.Call) and norm(s.value.args[0].func) == "range":
            for t in s.targets:
                level_lists |= _names(t)
    derived = set(level_lists)
    changed = True
    while changed:
        changed = False
        for s in walk_no_nested(f.node):
            tg = None
            if isinstance(s, ast.Assign):
                tg, val = s.targets, s.value
            elif isinstance(s, ast.AugAssign):
                tg, val = [s.target], s.value
            if tg and _names(val) & derived:
                for t in tg:
                    for nm in _names(t):
                        if nm not in derived:
                            derived.add(nm); changed = True
    n = 0
    for c in walk_no_nested(f.node):
        if isinstance(c, ast.Call) and isinstance(c.func, ast.Attribute) and c.func.attr in ("size", "agg", "sum", "count", "mean"):
            mk = next((k.value for k in c.keywords if k.arg == "margins"), None)
            if mk is None:
                continue
            n += 1
            if _names(mk) & (derived - level_lists) or _names(mk) & level_lists:
                res.ok(f, c, f"{norm(c.func)}(margins={norm(mk)})", "a list of levels derived from the row/column split")
            else:
                res.bad(f, c, f"{norm(c.func)}(margins={norm(mk)})",
                        "the margins handed to the grouping do not derive from the row / column level lists: the restriction of "
                        "margins to rows or columns is lost (full margins are computed and trimmed afterwards, which leaves the "
                        "nested subtotal rows behind)")
    if n < 2:
        raise AnalysisError("A3y: margin-carrying delegations of crosstab not found")
    return res


# ------------------------------------------------------------------------------------------------ P21 / P22

def rule_P21(repo: Repo) -> RuleResult:
    res = RuleResult("P21", "head/tail/nth return the caller's values unmodified (values list straight from the input)")
    f = repo.func(CORE, "GroupBy._get_row_selection")
    # the list whose elements are put into the result frame
    frames = [c for c in walk_no_nested(f.node) if isinstance(c, ast.Call) and norm(c.func) in ("pd.DataFrame", "pl.DataFrame")]
    if not frames:
        raise AnalysisError("P21: result frame of _get_row_selection not found")
    used = set()
    for c in frames:
        used |= _names(c)
    srcs = {}
    for s in walk_no_nested(f.node):
        if isinstance(s, ast.Assign) and isinstance(s.value, ast.Call) and isinstance(s.targets[0], ast.Tuple):
            cn = (call_name(s.value) or "").split(".")[-1]
            for e in s.targets[0].elts:
                if isinstance(e, ast.Name):
                    srcs[e.id] = cn
    # follow one level of local definitions (selected = f(value_list) ...)
    for s_ in walk_no_nested(f.node):
        if isinstance(s_, ast.Assign) and len(s_.targets) == 1 and isinstance(s_.targets[0], ast.Name) and s_.targets[0].id in used:
            used |= _names(s_.value)
    hit = {n_: srcs[n_] for n_ in used if n_ in srcs}
    if not hit:
        res.ok(f, frames[0], "source of the selected values not attributable", "nothing to decide here", nontrivial=False)
        return res
    for nm, cn in sorted(hit.items()):
        if cn == "convert_data_to_arr_list_and_keys":
            res.ok(f, frames[0], f"{nm} <- {cn}", "the inputs as given")
        elif cn == "_preprocess_arguments":
            res.bad(f, frames[0], f"{nm} <- {cn}",
                    "the selected rows are taken from the list returned by the aggregation pre-processor, which drops non-numeric "
                    "columns and converts timestamps to tz-unaware arrays: head/tail/nth must return the values unmodified")
        else:
            res.ok(f, frames[0], f"{nm} <- {cn}", "", nontrivial=False)
    return res


def rule_P22(repo: Repo) -> RuleResult:
    res = RuleResult("P22", "check_if_func_is_non_reduce doubles the probe input (tiling a one-element input)")
    f = repo.func("util", "check_if_func_is_non_reduce")
    tiled = any(isinstance(c, ast.Call) and (call_name(c) or "") in ("np.tile", "np.concatenate", "np.repeat", "np.append")
                for c in walk_no_nested(f.node))
    guard = any(isinstance(i, ast.If) and "len(" in norm(i.test) and ("== 1" in norm(i.test) or "< 2" in norm(i.test))
                for i in walk_no_nested(f.node))
    if tiled and guard:
        res.ok(f, f.node, "one-element input is doubled by tiling", "")
    else:
        res.bad(f, f.node, "probe of the doubled input",
                "the probe compares func(x[:1]) with func(x[:2]); for a first group with a single row x[:2] is x[:1], the ratio is 1 "
                "and a row-wise function is classified as a fixed-length reduction (results mis-shaped / mis-labelled) - the "
                "one-element case must be doubled by tiling")
    return res


# ------------------------------------------------------------------------------------------------ A9

REALIGNERS = {"reindex", "reindex_like", "align", "combine_first"}


def rule_A9(repo: Repo) -> RuleResult:
    res = RuleResult("A9", "grouping keys and inputs are never re-aligned (no reindex / align before grouping)")
    api = repo.mod(API)
    core = repo.mod(CORE)
    funcs = [api.func("SeriesGroupBy._from_by_keys"), api.func("DataFrameGroupBy._from_by_keys"), core.func("GroupBy.__init__"),
             core.func("GroupBy._preprocess_arguments"), core.func("GroupBy._get_row_selection")]
    for f in funcs:
        bad = [c for c in ast.walk(f.node) if isinstance(c, ast.Call) and isinstance(c.func, ast.Attribute) and c.func.attr in REALIGNERS]
        if bad:
            res.bad(f, bad[0], f"{f.qualname}: {norm(bad[0])[:70]}",
                    f".{bad[0].func.attr}() re-aligns an input by label: a key / value / mask whose index does not match is silently "
                    f"re-ordered, truncated or padded with nulls instead of being rejected")
        else:
            res.ok(f, f.node, f"{f.qualname}: inputs taken as given", "")
    return res


# ------------------------------------------------------------------------------------------------ D5b / P23

def rule_D5b(repo: Repo) -> RuleResult:
    res = RuleResult("D5b", "reduce_1d: per-thread partial results keep the dtype the reducer produced")
    f = repo.func("nanops", "reduce_1d")
    chunk_vars = {s.targets[0].id for s in walk_no_nested(f.node) if isinstance(s, ast.Assign) and len(s.targets) == 1
                  and isinstance(s.targets[0], ast.Name) and isinstance(s.value, ast.Call)
                  and (call_name(s.value) or "").endswith("parallel_map")}
    if not chunk_vars:
        raise AnalysisError("D5b: per-thread results of reduce_1d not found")
    bad = None
    for c in walk_no_nested(f.node):
        if isinstance(c, ast.Call) and isinstance(c.func, ast.Attribute) and c.func.attr in ("astype", "view") and _names(c.func.value) & chunk_vars:
            bad = c
    if bad is not None:
        res.bad(f, bad, norm(bad)[:80],
                "the per-thread partial results are cast before the combine stage: partial sums / counts of narrow integer inputs are "
                "int64 and wrap when cast back to the input dtype, so the result depends on the thread count")
    else:
        res.ok(f, f.node, f"partials {sorted(chunk_vars)} are combined in the dtype the reducer produced", "")
    return res


def rule_P23(repo: Repo) -> RuleResult:
    res = RuleResult("P23", "bools_to_categorical packs and decodes the same frame")
    f = repo.func("util", "bools_to_categorical")
    packs = [c for c in walk_no_nested(f.node) if isinstance(c, ast.Call) and (call_name(c) or "") == "nb_dot" and c.args]
    if not packs:
        raise AnalysisError("P23: bit packing (nb_dot) not found in bools_to_categorical")
    packed = packs[0].args[0]
    decoded = [x.value for x in ast.walk(f.node) if isinstance(x, ast.Attribute) and x.attr == "columns"
               and any(isinstance(l, (ast.For, ast.comprehension)) and any(y is x for y in ast.walk(l.iter)) for l in ast.walk(f.node))]
    if not decoded:
        raise AnalysisError("P23: decode loop over the columns not found")
    if all(norm(d) == norm(packed) for d in decoded):
        res.ok(f, packs[0], f"packed {norm(packed)} / decoded {norm(decoded[0])}", "bit i is column i of one and the same frame")
    else:
        res.bad(f, packs[0], f"packed {norm(packed)} / decoded {norm(decoded[0])}",
                "the rows are bit-packed from one frame and the bits are decoded against the columns of another: bit i is read as a "
                "different column, so rows are labelled with the wrong column names")
    return res


# ------------------------------------------------------------------------------------------------ S5

REVIEWED_CACHES = {
    # cached properties of GroupBy whose value does not depend on whether the codes are chunk-local or global
    "_group_key_lengths": "chunk lengths only",
    "_chunk_offsets": "chunk lengths only",
    "_labels_argsort": "labels only",
    "ikey_count": "counts per global label (count_ikey maps chunk-local codes through the pointer tables)",
    "key_count": "derived from ikey_count",
    "has_null_keys": "whether any code is the null code: invariant under re-mapping (K2)",
    "_group_sort_indexer": "unifies the codes before it reads them (S2)",
    "groups": "derived from _group_sort_indexer",
    "_group_first_sort_key": "derived from groups",
}


def rule_S5(repo: Repo) -> RuleResult:
    """Caches and the key representation.  _unify_group_key_chunks replaces self._group_ikey (chunk-local codes become global
    codes) and drops the pointer tables; a cached property that holds anything computed from the codes or the pointer tables
    is stale afterwards unless its value is representation-invariant.  The invariant ones are a reviewed table (one line of
    reason each); any other cached property that reads the codes / pointer tables, directly or through another cache that is not
    in the table, is a violation."""
    res = RuleResult("S5", "cached properties never hold representation-dependent values (they would survive unification)")
    core = repo.mod(CORE)
    methods = core.methods("GroupBy")
    cached = {n: m for n, m in methods.items() if "cached_property" in m.decorators}
    if len(cached) < 6:
        raise AnalysisError(f"S5: only {len(cached)} cached properties found (floor 6)")
    for name, m in sorted(cached.items()):
        reads = set()
        for x in ast.walk(m.node):
            if isinstance(x, ast.Attribute) and isinstance(x.value, ast.Name) and x.value.id == "self":
                reads.add(x.attr)
        dep = reads & {"_group_ikey", "group_ikey", "_group_key_pointers"}
        dep |= {r for r in reads if r in cached and r not in REVIEWED_CACHES}
        construct = f"cached_property {name}: reads {sorted(dep) or 'no representation state'}"
        if name in REVIEWED_CACHES:
            res.ok(m, m.node, f"cached_property {name}", REVIEWED_CACHES[name])
        elif dep:
            res.bad(m, m.node, construct,
                    f"the cached property {name} stores a value computed from {sorted(dep)}; _unify_group_key_chunks later replaces the "
                    f"codes / drops the pointer tables without invalidating it, so after a transform, head/tail/nth, cumulative or "
                    f"rolling call the cache describes a representation that no longer exists (history-dependent results)")
        else:
            res.ok(m, m.node, construct, "independent of the key representation")
    return res


# ------------------------------------------------------------------------------------------------ NV1 (nanops composites)

def rule_NV1(repo: Repo) -> RuleResult:
    """Composite NaN-aware reducers of nanops.  nanmean = nansum(..)/count(..); nanvar = (SS - S^2/n)/(n - ddof) with SS, S the
    'sum_square' and 'sum' reductions and n the count, all three over the same array / axis / skipna / thread setting (every
    shared parameter bound to the composite's own parameter); nanstd = nanvar(..) ** 0.5 with every parameter forwarded.  The
    expressions are compared in canonical arithmetic form (commuted operands, `s*s` for `s**2` are the same)."""
    from .consteval import CS, Evaluator, ParamVal, bind_call
    from .rules_d import calls_to
    from .rules_e import _canon, _show_canon
    from .canon import subst_single_defs
    res = RuleResult("NV1", "nanops composites: mean = sum/count; var = (SS - S^2/n)/(n - ddof) over one set of rows; std = var ** 0.5")
    nm = repo.mod("nanops")
    red, cnt, nsum = nm.func("reduce"), nm.func("count"), nm.func("nansum")
    shared = ["arr", "skipna", "min_count", "axis", "n_threads"]

    def forwarded(f: Func, rec, callee: Func, params, label: str):
        b = bind_call(ev, rec, callee)
        for p in params:
            if p not in callee.named_params:
                continue
            v = b.values.get(p)
            construct = f"{f.name} -> {label}: {p}"
            if isinstance(v, ParamVal) and v.name == p:
                res.ok(f, rec.node, construct, "bound to the composite's own parameter")
            else:
                res.bad(f, rec.node, construct,
                        f"{p!r} of the {label} primitive is not bound to {f.name}'s parameter {p!r} (got {v!r}): the parts of the "
                        f"composite would be computed over different elements / settings")
        return b

    def target_of(f: Func, call: ast.Call) -> Optional[str]:
        for s in walk_no_nested(f.node):
            if isinstance(s, ast.Assign) and s.value is call and len(s.targets) == 1 and isinstance(s.targets[0], ast.Name):
                return s.targets[0].id
        return None

    def returned_formula(f: Func, env) -> Tuple[Optional[ast.Return], Optional[tuple]]:
        rets = [r for r in walk_no_nested(f.node) if isinstance(r, ast.Return) and r.value is not None
                and any(isinstance(x, ast.BinOp) and isinstance(x.op, (ast.Div, ast.Pow, ast.Mult)) for x in ast.walk(subst_single_defs(f, r.value)))]
        if len(rets) != 1:
            return None, None
        env = dict(env)
        for s in walk_no_nested(f.node):
            if isinstance(s, ast.Assign) and len(s.targets) == 1 and isinstance(s.targets[0], ast.Name) and s.targets[0].id not in env:
                env[s.targets[0].id] = _canon(s.value, env)
        return rets[0], _canon(rets[0].value, env)

    # ---- nanvar
    f = nm.func("nanvar")
    ev = Evaluator(repo)
    ev.run(f)
    roles: Dict[str, str] = {}
    for rec in calls_to(ev, red):
        b = bind_call(ev, rec, red)
        v = b.values.get("reduce_func_name")
        name = next(iter(v.vals)) if isinstance(v, CS) and len(v.vals) == 1 else None
        role = {"sum_square": "SS", "sum_squares": "SS", "sum": "S"}.get(name)
        if role is None:
            res.bad(f, rec.node, f"nanvar -> reduce({name!r})", "the variance is built from the 'sum_square' and 'sum' reductions only")
            continue
        forwarded(f, rec, red, shared, f"reduce({name!r})")
        t = target_of(f, rec.node)
        if t:
            roles[t] = role
    crecs = calls_to(ev, cnt)
    if len(crecs) != 1:
        raise AnalysisError(f"NV1: nanvar calls count {len(crecs)} times (expected 1)")
    forwarded(f, crecs[0], cnt, ["arr", "axis"], "count")
    t = target_of(f, crecs[0].node)
    if t:
        roles[t] = "N"
    if set(roles.values()) != {"SS", "S", "N"}:
        res.bad(f, f.node, f"nanvar primitives {sorted(roles.values())}",
                "nanvar no longer computes all of sum of squares, sum and count (each assigned to a local)")
    else:
        ret, got = returned_formula(f, {n: ("name", r) for n, r in roles.items()})
        if ret is None:
            raise AnalysisError("NV1: the formula returned by nanvar is not identified")
        N, SS, S, ddof = ("name", "N"), ("name", "SS"), ("name", "S"), ("name", "ddof")
        wants = []
        for s2 in (("Pow", S, ("const", "2")), ("mul", S, S)):
            num = ("add",) + tuple(sorted([SS, ("neg", ("div", s2, N))], key=repr))
            den = ("add",) + tuple(sorted([N, ("neg", ddof)], key=repr))
            wants.append(("div", num, den))
        construct = f"nanvar = {_show_canon(got)[:100]}"
        if got in wants:
            res.ok(f, ret, construct, "(SS - S^2/n) / (n - ddof)")
        else:
            res.bad(f, ret, construct, "the value returned by nanvar is not (sum_square - sum^2/n) / (n - ddof) of its three primitives "
                                       "(compared in canonical arithmetic form)")
    # ---- nanmean
    f = nm.func("nanmean")
    ev = Evaluator(repo)
    ev.run(f)
    srecs, crecs = calls_to(ev, nsum), calls_to(ev, cnt)
    if len(srecs) != 1 or len(crecs) != 1:
        res.bad(f, f.node, f"nanmean: {len(srecs)} nansum call(s), {len(crecs)} count call(s)", "nanmean is the NaN-aware sum divided by the count")
    else:
        forwarded(f, srecs[0], nsum, shared, "nansum")
        forwarded(f, crecs[0], cnt, ["arr", "axis"], "count")
        roles = {}
        for rec, role in ((srecs[0], "S"), (crecs[0], "N")):
            t = target_of(f, rec.node)
            if t:
                roles[t] = role
        ret, got = returned_formula(f, {n: ("name", r) for n, r in roles.items()})
        construct = f"nanmean = {_show_canon(got)[:80] if got else '?'}"
        if ret is not None and got == ("div", ("name", "S"), ("name", "N")):
            res.ok(f, ret, construct, "sum / count")
        else:
            res.bad(f, ret or f.node, construct, "the value returned by nanmean is not nansum / count of the same elements")
    # ---- nanstd
    f = nm.func("nanstd")
    ev = Evaluator(repo)
    ev.run(f)
    var = nm.func("nanvar")
    vrecs = calls_to(ev, var)
    if len(vrecs) != 1:
        raise AnalysisError(f"NV1: nanstd calls nanvar {len(vrecs)} times (expected 1)")
    forwarded(f, vrecs[0], var, list(var.named_params), "nanvar")
    r = [x for x in walk_no_nested(f.node) if isinstance(x, ast.Return) and x.value is not None]
    rv = subst_single_defs(f, r[0].value) if len(r) == 1 else None
    ok = rv is not None and ((isinstance(rv, ast.BinOp) and isinstance(rv.op, ast.Pow) and norm(rv.right) in ("0.5", "1 / 2"))
                             or (isinstance(rv, ast.Call) and norm(rv.func) in ("np.sqrt", "numpy.sqrt")))
    if ok and "nanvar(" in norm(rv):
        res.ok(f, r[0], f"nanstd = {norm(r[0].value)[:60]}", "square root of nanvar")
    else:
        res.bad(f, r[0] if r else f.node, f"nanstd = {norm(r[0].value)[:60] if r else '?'}", "nanstd must be the square root of nanvar")
    return res


# ------------------------------------------------------------------------------------------------ ND1 / PC1 (util helpers)

def rule_ND1(repo: Repo) -> RuleResult:
    """Matrix-vector helper.  _nb_dot: out[row] accumulates (+=) the product a[col][row] * b[col] with the SAME column index
    on both factors and the row index on the output, rows ranging over the length of a column and columns over len(b);
    nb_dot hands it a zero-initialised output of one slot per row and the matrix as a list of columns (a.T for an array)."""
    res = RuleResult("ND1", "nb_dot: out[row] += a[col][row] * b[col] over all rows and columns, zero-initialised output, column-major input")
    ut = repo.mod("util")
    k = ut.func("_nb_dot")
    params = list(k.named_params)
    if len(params) < 3:
        raise AnalysisError("ND1: _nb_dot no longer has (a, b, out) parameters")
    A, B, OUT = params[:3]
    loops = [l for l in ast.walk(k.node) if isinstance(l, ast.For) and isinstance(l.target, ast.Name)]
    rng: Dict[str, str] = {}
    for l in loops:
        it = l.iter
        if isinstance(it, ast.Call) and norm(it.func) in ("range", "nb.prange", "prange", "numba.prange") and len(it.args) == 1:
            rng[l.target.id] = norm(it.args[0])
    accs = [s for s in ast.walk(k.node) if isinstance(s, ast.AugAssign) and isinstance(s.target, ast.Subscript) and base_name(s.target) == OUT]
    if len(accs) != 1:
        res.bad(k, k.node, f"_nb_dot: {len(accs)} accumulation(s) into {OUT}", "the product must be accumulated into the output exactly once per (row, column)")
    else:
        s = accs[0]
        ok = isinstance(s.op, ast.Add) and isinstance(s.value, ast.BinOp) and isinstance(s.value.op, ast.Mult) and isinstance(s.target.slice, ast.Name)
        row = s.target.slice.id if ok else None
        col = None
        if ok:
            fa = [x for x in (s.value.left, s.value.right) if isinstance(x, ast.Subscript) and base_name(x) == A]
            fb = [x for x in (s.value.left, s.value.right) if isinstance(x, ast.Subscript) and base_name(x) == B and isinstance(x.slice, ast.Name)]
            ok = len(fa) == 1 and len(fb) == 1
            if ok:
                col = fb[0].slice.id
                # a[col][row]  or  a[col, row]
                x = fa[0]
                if isinstance(x.value, ast.Subscript):
                    ok = norm(x.value.slice) == col and norm(x.slice) == row
                elif isinstance(x.slice, ast.Tuple) and len(x.slice.elts) == 2:
                    ok = norm(x.slice.elts[0]) == col and norm(x.slice.elts[1]) == row
                else:
                    ok = False
        if ok and row != col and rng.get(row) in (f"len({A}[0])", f"len({OUT})", f"{A}[0].shape[0]") and rng.get(col) in (f"len({B})", f"len({A})", f"{B}.shape[0]"):
            res.ok(k, s, norm(s), f"rows over {rng[row]}, columns over {rng[col]}")
        else:
            res.bad(k, s, norm(s), f"the kernel must accumulate {A}[col][row] * {B}[col] into {OUT}[row] with rows ranging over a column's "
                                   f"length and columns over len({B}): another index pairing computes something else than the matrix-vector product")
    f = ut.func("nb_dot")
    calls = [c for c in walk_no_nested(f.node) if isinstance(c, ast.Call) and (call_name(c) or "") == "_nb_dot"]
    if len(calls) != 1:
        raise AnalysisError(f"ND1: nb_dot calls _nb_dot {len(calls)} times (expected 1)")
    c = calls[0]
    bound = dict(zip(params, c.args))
    bound.update({kw.arg: kw.value for kw in c.keywords if kw.arg})
    from .canon import subst_single_defs
    o = subst_single_defs(f, bound.get(OUT)) if bound.get(OUT) is not None else None
    fp = f.named_params[0]
    if o is not None and isinstance(o, ast.Call) and norm(o.func) in ("np.zeros", "numpy.zeros") and o.args and norm(o.args[0]) in (f"len({fp})", f"{fp}.shape[0]"):
        res.ok(f, c, f"out = {norm(o)}", "zero-initialised, one slot per row")
    else:
        res.bad(f, c, f"out = {norm(o) if o is not None else '?'}", "the output handed to the kernel must be zero-initialised with one slot per row of the matrix (the kernel only accumulates)")
    # the matrix as a list of columns
    arg_a = bound.get(A)
    defs = [s.value for s in walk_no_nested(f.node) if isinstance(s, ast.Assign) and len(s.targets) == 1 and isinstance(s.targets[0], ast.Name)
            and isinstance(arg_a, ast.Name) and s.targets[0].id == arg_a.id]
    for d in defs:
        t = norm(d)
        if t == f"{fp}.T" or t == f"{fp}.transpose()" or ".columns" in t:
            res.ok(f, d, f"{norm(arg_a)} = {t[:60]}", "list of columns")
        else:
            res.bad(f, d, f"{norm(arg_a)} = {t[:60]}", "the kernel indexes its first argument as [column][row]: it must be given the columns (a.T / one array per frame column)")
    if not defs:
        raise AnalysisError("ND1: the column list handed to _nb_dot is not identified")
    return res


def rule_PC1(repo: Repo) -> RuleResult:
    """pretty_cut: codes come from searchsorted(values) on the sorted edges with the default side ('left': a value equal to an
    edge falls into the bin that ends at that edge, which is what the printed bounds `<= e`, `l+1 - r`, `> e` say); one label
    more than edges; nulls get code -1 whenever the data can hold nulls."""
    res = RuleResult("PC1", "pretty_cut: searchsorted side matches the printed (left-open, right-closed) bounds; nulls -> -1; len(labels) = len(bins) + 1")
    f = repo.func("util", "pretty_cut")
    x = f.named_params[0]
    ss = [c for c in walk_no_nested(f.node) if isinstance(c, ast.Call) and isinstance(c.func, ast.Attribute) and c.func.attr == "searchsorted"
          or isinstance(c, ast.Call) and norm(c.func) in ("np.searchsorted", "numpy.searchsorted")]
    if len(ss) != 1:
        raise AnalysisError(f"PC1: {len(ss)} searchsorted calls in pretty_cut (expected 1)")
    c = ss[0]
    side = next((k.value for k in c.keywords if k.arg == "side"), None)
    pos = c.args if isinstance(c.func, ast.Attribute) and norm(c.func.value) not in ("np", "numpy") else c.args[1:]
    if len(pos) >= 2:
        side = pos[1]
    needle_ok = bool(pos) and x in {n.id for n in ast.walk(pos[0]) if isinstance(n, ast.Name)}
    if (side is None or (isinstance(side, ast.Constant) and side.value == "left")) and needle_ok:
        res.ok(f, c, norm(c), "side='left': (left, right] bins as printed")
    else:
        res.bad(f, c, norm(c), "the bin of a value must be found with searchsorted(values) and side='left' on the sorted edges: the printed "
                               "bounds are ` <= e`, `l+1 - r` / `l - r`, ` > e`, i.e. right-closed; with side='right' a value equal to an edge "
                               "is put into the bin whose printed bounds exclude it")
    # nulls -> -1
    nulls = [s for s in walk_no_nested(f.node) if isinstance(s, ast.Assign) and isinstance(s.targets[0], ast.Subscript)
             and const_int(s.value) == -1 and ("isnull" in norm(s.targets[0].slice) or "isna" in norm(s.targets[0].slice) or "isnan" in norm(s.targets[0].slice))]
    if nulls:
        # the only data that cannot hold nulls is integer data: the guard of the null assignment may exempt a row set only
        # through a flag that IMPLIES "the values' dtype kind is integer" (a top-level conjunct of its definition)
        guard = next((t for t in walk_no_nested(f.node) if isinstance(t, ast.If) and any(s is nulls[0] for b in (t.body, t.orelse) for s in b)), None)
        verdict = None
        if guard is not None and isinstance(guard.test, ast.UnaryOp) and isinstance(guard.test.op, ast.Not) and nulls[0] in guard.body:
            g = guard.test.operand
            sdefs: Dict[str, List[ast.AST]] = {}
            for s_ in walk_no_nested(f.node):
                if isinstance(s_, ast.Assign) and len(s_.targets) == 1 and isinstance(s_.targets[0], ast.Name):
                    sdefs.setdefault(s_.targets[0].id, []).append(s_.value)
            if isinstance(g, ast.Name) and len(sdefs.get(g.id, [])) == 1:
                g = sdefs[g.id][0]
            conj = g.values if isinstance(g, ast.BoolOp) and isinstance(g.op, ast.And) else [g]

            def about_values(e: ast.AST) -> bool:
                for n_ in ast.walk(e):
                    if isinstance(n_, ast.Name) and (n_.id == x or any(x in {m.id for m in ast.walk(d) if isinstance(m, ast.Name)}
                                                                           for d in sdefs.get(n_.id, []))):
                        return True
                return False
            def int_kind(c_: ast.AST) -> bool:
                if isinstance(c_, ast.Name) and len(sdefs.get(c_.id, [])) == 1:
                    c_ = sdefs[c_.id][0]
                return (isinstance(c_, ast.Compare) and len(c_.ops) == 1 and isinstance(c_.ops[0], (ast.In, ast.Eq))
                        and isinstance(c_.comparators[0], ast.Constant) and isinstance(c_.comparators[0].value, str)
                        and set(c_.comparators[0].value) <= set("uib") and "kind" in norm(c_.left) and about_values(c_.left))
            verdict = any(int_kind(c_) for c_ in conj)
        if verdict is False:
            res.bad(f, guard, f"pretty_cut: {norm(nulls[0])} under `{norm(guard.test)[:60]}`",
                    "the null assignment is skipped under a flag that does not imply integer VALUES: float (or temporal) data with "
                    "nulls then keeps the searchsorted position of NaN, i.e. every null lands in the last (` > e`) bin")
        else:
            res.ok(f, nulls[0], norm(nulls[0]), "nulls belong to no bin")
    else:
        res.bad(f, f.node, "null values", "null values are no longer given the code -1 (searchsorted puts NaN after the last edge: the ` > e` bin)")
    # labels: one head, one per adjacent pair, one tail
    apps = [s for s in walk_no_nested(f.node) if isinstance(s, ast.Expr) and isinstance(s.value, ast.Call) and isinstance(s.value.func, ast.Attribute)
            and s.value.func.attr == "append"]
    loops = [l for l in walk_no_nested(f.node) if isinstance(l, ast.For) and isinstance(l.iter, ast.Call) and norm(l.iter.func) == "zip"
             and len(l.iter.args) == 2 and norm(l.iter.args[1]) == norm(l.iter.args[0]) + "[1:]"]
    # the same pairs by index:  for i in range(len(X) - 1): .. X[i] .. X[i + 1] ..
    for l in walk_no_nested(f.node):
        if isinstance(l, ast.For) and isinstance(l.target, ast.Name) and isinstance(l.iter, ast.Call) and norm(l.iter.func) == "range" \
                and len(l.iter.args) == 1 and isinstance(l.iter.args[0], ast.BinOp) and isinstance(l.iter.args[0].op, ast.Sub) \
                and const_int(l.iter.args[0].right) == 1 and norm(l.iter.args[0].left).startswith("len("):
            X, i_ = norm(l.iter.args[0].left)[4:-1], l.target.id
            body_txt = " ".join(norm(s_) for s_ in l.body)
            if f"{X}[{i_}]" in body_txt and (f"{X}[{i_} + 1]" in body_txt or f"{X}[1 + {i_}]" in body_txt):
                loops.append(l)
    in_loop = [a for a in apps if any(a in list(ast.walk(l)) for l in loops)]
    lab = in_loop[0].value.func.value.id if in_loop and isinstance(in_loop[0].value.func.value, ast.Name) else None
    literal = sum(len(s_.value.elts) for s_ in walk_no_nested(f.node) if isinstance(s_, ast.Assign) and len(s_.targets) == 1
                  and isinstance(s_.targets[0], ast.Name) and s_.targets[0].id == lab and isinstance(s_.value, ast.List))
    outside = [a for a in apps if a not in in_loop and isinstance(a.value.func.value, ast.Name) and a.value.func.value.id == lab]
    if loops and in_loop and literal + len(outside) == 2:
        res.ok(f, loops[0], f"for {norm(loops[0].target)} in {norm(loops[0].iter)}: one label per adjacent pair, plus head and tail", "")
    else:
        res.bad(f, f.node, "labels", "the labels must be: one head label, one per adjacent pair of edges, one tail label (len(bins) + 1 labels for the len(bins) + 1 searchsorted codes)")
    return res


# ------------------------------------------------------------------------------------------------ MG1 (margin rows)

def rule_MG1(repo: Repo) -> RuleResult:
    """add_row_margin, the re-aggregation that produces every 'All' row.  (a) one level: the 'All' row is data.agg(agg_func).
    (b) several levels, for each requested level: the other levels are ALL levels except that one; the subtotal groups the
    per-group result by exactly those other levels and aggregates with the caller's agg_func; nested subtotals by recursion
    with the same agg_func; (c) the 'All' label is put in front and moved back to the level's own position with the INVERSE
    of the permutation [level, *other_levels] (np.argsort of it), the names being taken in that same order; (d) the 'All'
    rows of levels that were not requested are dropped.  _add_margins hands levels=None for margins=True and the list
    otherwise."""
    res = RuleResult("MG1", "margin rows: subtotal over exactly the other levels with the caller's aggregator; 'All' moved back by the inverse permutation")
    CORE_ = "groupby.core"
    f = repo.func(CORE_, "add_row_margin")
    params = list(f.named_params)
    data_p, agg_p, levels_p = params[0], params[1], params[2]
    # (a) single level
    single = [n for n in walk_no_nested(f.node) if isinstance(n, ast.If) and "nlevels == 1" in norm(n.test)]
    if not single:
        raise AnalysisError("MG1: single-level branch of add_row_margin not found")
    st = [s for s in single[0].body if isinstance(s, ast.Assign) and isinstance(s.targets[0], ast.Subscript)
          and isinstance(s.targets[0].slice, ast.Constant) and s.targets[0].slice.value == "All"]
    if st and isinstance(st[0].value, ast.Call) and isinstance(st[0].value.func, ast.Attribute) and st[0].value.func.attr in ("agg", "aggregate") \
            and st[0].value.args and norm(st[0].value.args[0]) == agg_p and norm(st[0].value.func.value) == data_p:
        res.ok(f, st[0], norm(st[0]), "grand total with the caller's aggregator")
    else:
        res.bad(f, single[0], "single-level 'All' row: " + (norm(st[0]) if st else "missing"),
                f"for one key the 'All' row must be {data_p}.agg({agg_p}): the same aggregation over all rows")
    # (b)/(c) the per-level loop
    loops = [l for l in walk_no_nested(f.node) if isinstance(l, ast.For) and isinstance(l.target, ast.Name)
             and any(isinstance(c, ast.Call) and isinstance(c.func, ast.Name) and c.func.id == f.name for c in ast.walk(l))]
    if len(loops) != 1:
        raise AnalysisError(f"MG1: {len(loops)} per-level loops with a recursive call in add_row_margin (expected 1)")
    loop = loops[0]
    lv = loop.target.id
    # a local copy of the parameter (X = levels; what inlining a split-off helper leaves behind) stands for the parameter
    level_names = {levels_p}
    for s_ in walk_no_nested(f.node):
        if isinstance(s_, ast.Assign) and len(s_.targets) == 1 and isinstance(s_.targets[0], ast.Name) and isinstance(s_.value, ast.Name) \
                and s_.value.id in level_names:
            level_names.add(s_.targets[0].id)
    if norm(loop.iter) not in level_names:
        res.bad(f, loop, f"for {lv} in {norm(loop.iter)}", f"the subtotals must be computed for the requested levels ({levels_p})")
    # other levels = complement
    others = None
    for s in loop.body:
        if isinstance(s, ast.Assign) and len(s.targets) == 1 and isinstance(s.targets[0], ast.Name) and isinstance(s.value, ast.ListComp) \
                and len(s.value.generators) == 1:
            g = s.value.generators[0]
            if isinstance(g.target, ast.Name) and norm(s.value.elt) == g.target.id and len(g.ifs) == 1:
                t = g.ifs[0]
                if isinstance(t, ast.Compare) and len(t.ops) == 1 and isinstance(t.ops[0], ast.NotEq) \
                        and {norm(t.left), norm(t.comparators[0])} == {g.target.id, lv}:
                    others = s.targets[0].id
                    all_iter = norm(g.iter)
                    res.ok(f, s, norm(s), "all levels except the one being summarised")
    if others is None:
        res.bad(f, loop, "other levels", "the levels a subtotal is grouped by must be all levels except the summarised one "
                                         "([l for l in all_levels if l != level])")
        return res
    # all_levels really is every level
    alldef = [s for s in walk_no_nested(f.node) if isinstance(s, ast.Assign) and len(s.targets) == 1 and norm(s.targets[0]) == all_iter]
    if alldef and "nlevels" in norm(alldef[0].value) and "range(" in norm(alldef[0].value) and not any(
            isinstance(x, ast.BinOp) for x in ast.walk(alldef[0].value)):
        res.ok(f, alldef[0], norm(alldef[0]), "every index level")
    else:
        res.bad(f, alldef[0] if alldef else loop, f"{all_iter} = {norm(alldef[0].value) if alldef else '?'}", "must enumerate every index level: range(index.nlevels)")
    # subtotal: data.groupby(level=others, ..).agg(agg_func)
    gb = [c for c in ast.walk(loop) if isinstance(c, ast.Call) and isinstance(c.func, ast.Attribute) and c.func.attr in ("agg", "aggregate")
          and isinstance(c.func.value, ast.Call) and isinstance(c.func.value.func, ast.Attribute) and c.func.value.func.attr == "groupby"]
    if len(gb) != 1:
        raise AnalysisError(f"MG1: {len(gb)} groupby(..).agg(..) subtotals in the per-level loop (expected 1)")
    g = gb[0]
    inner = g.func.value
    lvl_arg = next((k.value for k in inner.keywords if k.arg == "level"), None)
    ok_sub = norm(inner.func.value) == data_p and lvl_arg is not None and norm(lvl_arg) == others \
        and len(g.args) >= 1 and norm(g.args[0]) == agg_p
    if ok_sub:
        res.ok(f, g, norm(g)[:90], "subtotal of the per-group result over the other levels")
    else:
        res.bad(f, g, norm(g)[:90], f"a level's 'All' rows must be {data_p}.groupby(level={others}).agg({agg_p}): grouped by exactly the other "
                                    f"levels, aggregated with the caller's aggregator")
    rec = [c for c in ast.walk(loop) if isinstance(c, ast.Call) and isinstance(c.func, ast.Name) and c.func.id == f.name]
    for c in rec:
        bound = dict(zip(params, c.args))
        bound.update({k.arg: k.value for k in c.keywords if k.arg})
        if agg_p in bound and norm(bound[agg_p]) == agg_p:
            res.ok(f, c, norm(c), "nested subtotals with the same aggregator")
        else:
            res.bad(f, c, norm(c), f"the nested subtotals must use the caller's aggregator ({agg_p}); the default 'sum' gives wrong min/max/... corners")
    # (c) order list and its inverse
    ro = [c for c in ast.walk(loop) if isinstance(c, ast.Call) and isinstance(c.func, ast.Attribute) and c.func.attr == "reorder_levels"]
    nm = [k.value for c in ast.walk(loop) if isinstance(c, ast.Call) for k in c.keywords if k.arg == "names"]
    want_order = {f"[{lv}, *{others}]", f"[{lv}] + {others}"}
    from .canon import subst_single_defs
    if len(ro) == 1 and ro[0].args:
        a = subst_single_defs(f, ro[0].args[0], keep={lv, others})
        if isinstance(a, ast.Call) and norm(a.func) in ("np.argsort", "numpy.argsort") and a.args and norm(subst_single_defs(f, a.args[0], keep={lv, others})) in want_order:
            res.ok(f, ro[0], norm(ro[0])[:90], "inverse permutation of [level, *other_levels]")
        else:
            res.bad(f, ro[0], norm(ro[0])[:90],
                    f"the 'All' level is concatenated in front ([{lv}, *{others}]) and must be moved back to position {lv} with the INVERSE "
                    f"permutation np.argsort([{lv}, *{others}]); the permutation itself differs for three or more keys")
    else:
        res.bad(f, loop, "reorder_levels", "the 'All' level is no longer moved back to the position of the summarised level")
    if nm:
        n0 = subst_single_defs(f, nm[0], keep={lv, others})
        its = [norm(subst_single_defs(f, g_.iter, keep={lv, others})) for g_ in ast.walk(n0) if isinstance(g_, ast.comprehension)]
        if its and its[0] in want_order:
            res.ok(f, nm[0], norm(nm[0])[:90], "names in the same order as the levels")
        else:
            res.bad(f, nm[0], norm(nm[0])[:90], f"the level names of the subtotal must be listed in the order [{lv}, *{others}] (the order of its levels)")
    # (d) unrequested levels dropped
    drops = [l for l in walk_no_nested(f.node) if isinstance(l, ast.For) and any(
        isinstance(c, ast.Call) and isinstance(c.func, ast.Attribute) and c.func.attr == "drop" and c.args and isinstance(c.args[0], ast.Constant)
        and c.args[0].value == "All" for c in ast.walk(l))]
    if drops and levels_p in norm(drops[0].iter) and all_iter in norm(drops[0].iter) and "-" in norm(drops[0].iter):
        res.ok(f, drops[0], f"for {norm(drops[0].target)} in {norm(drops[0].iter)}: drop 'All'", "unrequested levels get no 'All' rows")
    else:
        res.bad(f, drops[0] if drops else f.node, "drop of unrequested 'All' rows",
                "the 'All' rows of the levels that were not requested must be dropped (margins restricted to the requested levels)")
    # _add_margins
    am = repo.func(CORE_, "GroupBy._add_margins")
    calls = [c for c in walk_no_nested(am.node) if isinstance(c, ast.Call) and (call_name(c) or "") == "add_row_margin"]
    if len(calls) != 1:
        raise AnalysisError("MG1: GroupBy._add_margins no longer calls add_row_margin exactly once")
    bound = dict(zip(params, calls[0].args))
    bound.update({k.arg: k.value for k in calls[0].keywords if k.arg})
    lv_e = bound.get(levels_p)
    mp = am.named_params[2] if len(am.named_params) > 2 else "margins"
    defs = [s for s in walk_no_nested(am.node) if isinstance(s, ast.Assign) and isinstance(lv_e, ast.Name) and norm(s.targets[0]) == lv_e.id]
    vals = {norm(s.value) for s in defs}
    if lv_e is not None and ((vals and vals <= {f"list({mp})", "None", mp}) and "None" in vals and len(vals) == 2):
        res.ok(am, calls[0], f"levels = {sorted(vals)}", "the requested levels, or None for all")
    else:
        res.bad(am, calls[0], f"levels = {sorted(vals) if vals else (norm(lv_e) if lv_e is not None else 'missing')}",
                f"_add_margins must pass the requested levels (list({mp})) when a list is given and None otherwise")
    # which inputs count as "a list of levels": every 1-D sequence (list, tuple, array), decided by dimensionality - a test on
    # one concrete container type sends the other sequences to levels=None (margins over ALL levels)
    SEQ = {"list", "tuple", "ndarray", "Sequence", "Iterable", "Index", "Series"}
    for t in walk_no_nested(am.node):
        if not isinstance(t, (ast.If, ast.IfExp)):
            continue
        for c in ast.walk(t.test):
            types = None
            if isinstance(c, ast.Call) and norm(c.func) == "isinstance" and len(c.args) == 2 and norm(c.args[0]) == mp:
                tt = c.args[1]
                types = {norm(x).split(".")[-1] for x in (tt.elts if isinstance(tt, ast.Tuple) else [tt])}
            elif isinstance(c, ast.Compare) and len(c.ops) == 1 and isinstance(c.ops[0], (ast.Is, ast.Eq, ast.IsNot, ast.NotEq)) \
                    and norm(c.left) == f"type({mp})":
                types = {norm(c.comparators[0]).split(".")[-1]}
            if types and types & SEQ and not {"list", "tuple"} <= types and not types & {"Sequence", "Iterable"}:
                res.bad(am, t, f"_add_margins: {norm(c)[:80]}",
                        f"whether {mp} is a list of levels is decided by one concrete container type ({', '.join(sorted(types))}): a tuple "
                        f"(or list, or array) of levels is then treated like margins=True and 'All' rows are added for EVERY level, "
                        f"not only the requested ones")
    return res


# ------------------------------------------------------------------------------------------------ K7 (mask kind)

def _truth_read_masks(f: Func) -> List[str]:
    """mask parameters of a kernel that are read as `mask[row]` inside a branch test (i.e. as a per-row truth value)"""
    out = []
    for n in ast.walk(f.node):
        if isinstance(n, (ast.If, ast.While, ast.IfExp)):
            for x in ast.walk(n.test):
                if isinstance(x, ast.Subscript) and isinstance(x.value, ast.Name) and x.value.id in f.named_params and "mask" in x.value.id:
                    out.append(x.value.id)
    return sorted(set(out))


def _establishes_boolean(f: Func, t: ast.AST, pol: bool, mv: Set[str], none_counts: bool = True) -> bool:
    """does deciding test `t` as `pol` establish that the mask (one of `mv`) is a boolean array (or, if none_counts, absent)?
    A flag with a single definition stands for its defining test; `A or B` decided true by alternatives is handled by the
    path enumerator (split tests), so only atoms arrive here - except through a flag, where a true disjunction of
    boolean-kind tests is itself a boolean-kind test."""
    if isinstance(t, ast.Name) and t.id not in mv:
        defs = [s.value for s in walk_no_nested(f.node) if isinstance(s, ast.Assign) and len(s.targets) == 1
                and isinstance(s.targets[0], ast.Name) and s.targets[0].id == t.id]
        if len(defs) == 1:
            d = defs[0]
            if isinstance(d, ast.BoolOp) and isinstance(d.op, ast.Or) and pol is True:
                return all(_boolean_kind_test(v, mv) for v in d.values)
            return _establishes_boolean(f, d, pol, mv, none_counts)
        return False
    if not (_names(t) & mv):
        return False
    if isinstance(t, ast.Call) and norm(t.func).split(".")[-1] == "is_bool_dtype":
        return pol is True
    if isinstance(t, ast.Compare) and len(t.ops) == 1:
        l, r = norm(t.left), norm(t.comparators[0]).replace("'", '"')
        if isinstance(t.ops[0], (ast.Is, ast.IsNot)) and r == "None" and l in mv:
            return none_counts and pol is isinstance(t.ops[0], ast.Is)
        boolish = r in ('"b"', "bool", "np.bool_", "pl.Boolean", "numpy.bool_")
        if boolish and (l.endswith(".dtype.kind") or l.endswith(".dtype")):
            if isinstance(t.ops[0], ast.Eq):
                return pol is True
            if isinstance(t.ops[0], ast.NotEq):
                return pol is False
    return False


def _boolean_kind_test(t: ast.AST, mv: Set[str]) -> bool:
    """a test that is true only for boolean masks: is_bool_dtype(m), m.dtype == pl.Boolean, m.dtype.kind == 'b', or a
    conjunction containing one"""
    if isinstance(t, ast.BoolOp) and isinstance(t.op, ast.And):
        return any(_boolean_kind_test(v, mv) for v in t.values)
    if isinstance(t, ast.BoolOp) and isinstance(t.op, ast.Or):
        return all(_boolean_kind_test(v, mv) for v in t.values)
    if not (_names(t) & mv):
        return False
    if isinstance(t, ast.Call) and norm(t.func).split(".")[-1] == "is_bool_dtype":
        return True
    if isinstance(t, ast.Compare) and len(t.ops) == 1 and isinstance(t.ops[0], ast.Eq):
        l, r = norm(t.left), norm(t.comparators[0]).replace("'", '"')
        return r in ('"b"', "bool", "np.bool_", "pl.Boolean", "numpy.bool_") and (l.endswith(".dtype.kind") or l.endswith(".dtype"))
    return False


def rule_K7(repo: Repo) -> RuleResult:
    """Mask kind.  The row-wise kernels (cumulative, rolling, shift/diff, EMA, row selection, group-sorted indexer) read
    `mask[row]` as a truth value; only the reduction kernels understand integer positions and slices (D8).  Wherever a function
    of the GroupBy layer (core.py, emas.py) binds a caller's mask into the arguments of anything but the reduction family -
    a dict / signature.bind / keyword that ends in a row-wise function, a kernel, or a function chosen at run time - every path
    to that binding must have established that the mask is boolean (is_bool_dtype / dtype.kind == 'b' / polars Boolean, the
    other arm raising or converting) or absent.  Delegations inside the layer (self.method(mask=mask), ema_grouped) are
    followed: the callee is itself subject to the rule."""
    res = RuleResult("K7", "a mask is bound into row-wise kernels (which read mask[row] as a truth value) only after it was established to be boolean")
    kernels = {f.name: _truth_read_masks(f) for f in repo.all_functions() if f.is_njit and _truth_read_masks(f)}
    if len(kernels) < 8:
        raise AnalysisError(f"K7: only {len(kernels)} kernels that read mask[row] as a truth value found (confirmed floor 8): {sorted(kernels)}")
    core = repo.mod("groupby.core")
    gb_methods = {q.split(".", 1)[1] for q in core.functions if q.startswith("GroupBy.") and q.count(".") == 1}
    layer_funcs = {f.name: f for m in ("groupby.core", "emas") for f in repo.mod(m).functions.values()
                   if not f.is_njit and any("mask" in p for p in f.named_params)}

    def maskvars(f: Func) -> Set[str]:
        mv = {p for p in f.named_params if "mask" in p}
        changed = True
        while changed:
            changed = False
            for s in walk_no_nested(f.node):
                if isinstance(s, ast.Assign) and len(s.targets) == 1 and isinstance(s.targets[0], ast.Name) and s.targets[0].id not in mv \
                        and _names(s.value) & mv and (isinstance(s.value, (ast.Name, ast.Subscript, ast.IfExp)) or (
                            isinstance(s.value, ast.Call) and norm(s.value.func).split(".")[-1] in ("asarray", "_val_to_numpy", "array", "to_numpy"))):
                    mv.add(s.targets[0].id)
                    changed = True
        return mv

    def family(f: Func, callee: ast.AST) -> str:
        """'reduction' | 'layer' | 'rowwise'  (rowwise = must be boolean: kernel, row-wise function, or not known)"""
        if isinstance(callee, ast.Attribute):
            ch = attr_chain(callee)
            if callee.attr.startswith("group_") and ch and ch[0] in ("numba_funcs", "nb_funcs"):
                return "reduction"
            if callee.attr in gb_methods:
                return "layer"                    # self.m(..) / GroupBy.m(..) / grouper.m(..): checked as a function of its own
            return "rowwise"
        if isinstance(callee, ast.Name):
            if callee.id in kernels:
                return "rowwise"
            if callee.id in layer_funcs or callee.id in ("GroupBy",):
                return "layer"
            if callee.id.startswith("group_"):
                return "reduction"
            # a local that holds a function: look at its definition
            defs = [s.value for s in walk_no_nested(f.node) if isinstance(s, ast.Assign) and len(s.targets) == 1
                    and isinstance(s.targets[0], ast.Name) and s.targets[0].id == callee.id]
            if defs and all(isinstance(d, ast.Call) and norm(d.func) == "getattr" and len(d.args) >= 2 and isinstance(d.args[1], ast.JoinedStr)
                            and d.args[1].values and isinstance(d.args[1].values[0], ast.Constant) and str(d.args[1].values[0].value).startswith("group_")
                            for d in defs):
                return "reduction"
            if defs and all(isinstance(d, ast.Call) and norm(d.func) == "getattr" and d.args and norm(d.args[0]) in ("self", "GroupBy") for d in defs):
                return "layer"                    # a method of the grouping chosen by name: subject to the rule itself
            return "rowwise"
        return "rowwise"

    def require(f: Func, site: ast.AST, what: str, mv: Set[str]):
        stmt = next((s for s in walk_no_nested(f.node) if isinstance(s, ast.stmt) and not isinstance(s, (ast.If, ast.For, ast.While, ast.With, ast.Try, ast.FunctionDef, ast.ClassDef))
                     and any(x is site for x in ast.walk(s))), None)
        if stmt is None:
            raise AnalysisError(f"K7: statement of the binding {what} in {f.qualname} not found")
        paths = [p for p in enumerate_paths(f.node.body, limit=60000, split_bool=True) if any(s is stmt for s in p.stmts) and not infeasible(p)]
        if not paths:
            raise AnalysisError(f"K7: no path reaches the binding {what} in {f.qualname}")
        bad = [p for p in paths if not any(_establishes_boolean(f, t, pol, mv) for t, pol in p.conds if isinstance(t, ast.AST))]
        construct = f"{f.qualname}: {what}"
        if bad:
            res.bad(f, site, construct,
                    "the caller's mask is bound into the arguments of a row-wise kernel (or of a function chosen at run time) on a path that "
                    "did not establish that it is boolean: these kernels read mask[row] as a truth value, so integer positions are misread "
                    "(position 0 = 'not selected', rows beyond len(mask) read past the end) instead of being rejected or converted",
                    path=bad[0].describe())
        else:
            res.ok(f, site, construct, f"boolean (or absent) on all {len(paths)} paths")

    n_sites = 0
    for f in layer_funcs.values():
        mv = maskvars(f)
        dict_vars: Dict[str, ast.AST] = {}      # local dicts that hold the mask under a key 'mask'
        for s in walk_no_nested(f.node):
            if isinstance(s, ast.Assign) and len(s.targets) == 1 and isinstance(s.targets[0], ast.Name):
                v = s.value
                if isinstance(v, ast.Call) and norm(v.func) == "dict" and any(k.arg and "mask" in k.arg and _names(k.value) & mv for k in v.keywords):
                    dict_vars[s.targets[0].id] = s
                if isinstance(v, ast.Dict) and any(isinstance(k, ast.Constant) and "mask" in str(k.value) and _names(val) & mv
                                                   for k, val in zip(v.keys, v.values)):
                    dict_vars[s.targets[0].id] = s
            if isinstance(s, ast.Assign) and isinstance(s.targets[0], ast.Subscript) and isinstance(s.targets[0].value, ast.Name) \
                    and isinstance(s.targets[0].slice, ast.Constant) and "mask" in str(s.targets[0].slice.value) and _names(s.value) & mv:
                dict_vars[s.targets[0].value.id] = s
        for c in walk_no_nested(f.node):
            if not isinstance(c, ast.Call):
                continue
            direct = [k for k in c.keywords if k.arg and "mask" in k.arg and _names(k.value) & mv]
            spread = [k for k in c.keywords if k.arg is None and isinstance(k.value, ast.Name) and k.value.id in dict_vars]
            if not direct and not spread:
                continue
            callee = c.func
            if norm(callee) == "dict":
                continue                        # handled where the dict is spread into a call
            if isinstance(callee, ast.Attribute) and callee.attr in ("bind", "bind_partial") and isinstance(callee.value, ast.Call) \
                    and norm(callee.value.func).endswith("signature") and callee.value.args:
                target = callee.value.args[0]
                fam = "rowwise" if isinstance(target, ast.Name) and target.id in f.named_params else family(f, target)
                what = f"signature({norm(target)}).bind(.. mask ..)"
            else:
                fam = family(f, callee)
                what = f"{norm(callee)}(.. mask ..)"
            if fam in ("reduction", "layer"):
                continue
            n_sites += 1
            require(f, c, what, mv)
    res.analysed = {"truth_reading_kernels": sorted(kernels), "binding_sites": n_sites}
    if n_sites < 2:
        raise AnalysisError(f"K7: only {n_sites} row-wise mask binding sites found in the GroupBy layer (confirmed floor 2)")
    return res


# ------------------------------------------------------------------------------------------------ D9b (scatter conversion)

def rule_D9b(repo: Repo) -> RuleResult:
    """Order- and multiplicity-forgetting conversions of a row selection.  `b = all-False; b[mask] = True` turns positions (or a
    slice) into a boolean row mask: repeated positions collapse, the given order is lost.  Such a scatter is accepted only on
    paths where the selection cannot be positional any more - the mask is absent, or positions were established strictly
    increasing (np.diff(..) <= 0 rejected), or the mask was established not to be an integer array - otherwise the same call
    gives different answers on a chunked and an unchunked key, and differs from filtering first (C05: repeated positions)."""
    res = RuleResult("D9b", "positions are never turned into a boolean row mask by scatter (b[mask] = True) unless established strictly increasing")
    n = 0
    for modname in ("groupby.core", "groupby.numba", "emas"):
        for f in repo.mod(modname).functions.values():
            if f.is_njit or not any("mask" in p for p in f.named_params):
                continue
            mv = {p for p in f.named_params if "mask" in p}
            changed = True
            while changed:
                changed = False
                for s in walk_no_nested(f.node):
                    if isinstance(s, ast.Assign) and len(s.targets) == 1 and isinstance(s.targets[0], ast.Name) \
                            and s.targets[0].id not in mv and _names(s.value) & mv and not isinstance(s.value, (ast.BoolOp, ast.Compare)) and not (
                                isinstance(s.value, ast.Call) and norm(s.value.func).split(".")[-1] in ("full", "zeros", "ones", "empty", "len", "is_bool_dtype", "isinstance")):
                        mv.add(s.targets[0].id)
                        changed = True
            false_arrays = {s.targets[0].id for s in walk_no_nested(f.node) if isinstance(s, ast.Assign) and len(s.targets) == 1
                            and isinstance(s.targets[0], ast.Name) and isinstance(s.value, ast.Call)
                            and ((norm(s.value.func).split(".")[-1] == "full" and len(s.value.args) >= 2 and isinstance(s.value.args[1], ast.Constant) and s.value.args[1].value is False)
                                 or (norm(s.value.func).split(".")[-1] == "zeros" and any(k.arg == "dtype" and "bool" in norm(k.value) for k in s.value.keywords))
                                 or (norm(s.value.func).split(".")[-1] == "zeros" and len(s.value.args) >= 2 and "bool" in norm(s.value.args[1])))}
            scatters = [s for s in walk_no_nested(f.node) if isinstance(s, ast.Assign) and isinstance(s.targets[0], ast.Subscript)
                        and isinstance(s.targets[0].value, ast.Name) and s.targets[0].value.id in false_arrays
                        and _names(s.targets[0].slice) & mv and isinstance(s.value, ast.Constant) and s.value.value in (True, 1)]
            for sc in scatters:
                n += 1
                paths = [p for p in enumerate_paths(f.node.body, limit=60000, split_bool=True) if any(s is sc for s in p.stmts) and not infeasible(p)]

                def safe(p) -> bool:
                    for t, pol in p.conds:
                        if not isinstance(t, ast.AST):
                            continue
                        if isinstance(t, ast.Compare) and len(t.ops) == 1 and norm(t.comparators[0]) == "None" and norm(t.left) in mv:
                            if pol is isinstance(t.ops[0], ast.Is):
                                return True                                   # no mask: the scatter selects by `None` (everything)
                        if _establishes_boolean(f, t, pol, mv, none_counts=False):
                            return True                                       # a boolean mask: the scatter is boolean indexing
                        txt = norm(t)
                        if "diff(" in txt and _names(t) & mv and any(isinstance(x, ast.Compare) and isinstance(x.ops[0], (ast.LtE, ast.Lt))
                                                                    and const_int(x.comparators[0]) == 0 for x in ast.walk(t)) and pol is False:
                            return True                                       # strictly increasing established
                    return False
                bad = [p for p in paths if not safe(p)]
                construct = f"{f.qualname}: {norm(sc)}"
                if not paths:
                    raise AnalysisError(f"D9b: no path reaches {construct}")
                if bad:
                    res.bad(f, sc, construct,
                            "a row selection given as positions (or a slice) is turned into a boolean row mask by scatter on a path that did not "
                            "establish the positions to be strictly increasing: repeated positions collapse and the given order is lost, so "
                            "count/sum differ from filtering first and first/last follow the row order instead of the order given",
                            path=bad[0].describe())
                else:
                    res.ok(f, sc, construct, f"only without a mask or with strictly increasing positions ({len(paths)} paths)")
    res.analysed = {"scatter_conversions": n}
    if n == 0:
        res.ok(repo.func("groupby.core", "GroupBy._resolve_mask_argument_into_chunks"), repo.func("groupby.core", "GroupBy._resolve_mask_argument_into_chunks").node,
               "no scatter conversion of a mask in core.py / numba.py / emas.py", "", nontrivial=False)
    return res


# ------------------------------------------------------------------------------------------------ P25 (group-sorted layout)

def rule_P25(repo: Repo) -> RuleResult:
    """Group-sorted layout.  self._group_sort_indexer lays the rows out group after group in SORTED-LABEL order.  The per-group
    row counts (self.ikey_count, self.count_ikey(..)) are in CODE order (first appearance).  Wherever a method that uses the
    group-sorted layout turns counts into sizes - np.cumsum / np.repeat / np.array_split / the counting-sort kernel - the counts
    must have been permuted by self._labels_argsort on that path (or the path established that no sorting applies, where the
    two orders coincide).  Otherwise groups are cut with their neighbours' sizes as soon as first appearance is not ascending."""
    res = RuleResult("P25", "group-sorted layout: counts are permuted into label order (self._labels_argsort) before they size the groups")
    core = repo.mod("groupby.core")
    SIZERS = ("cumsum", "repeat", "array_split", "_build_group_sorted_indexer_numba")
    n = 0
    for f in core.functions.values():
        if f.cls != "GroupBy" or f.is_njit:
            continue
        txt = norm(f.node)
        if "_group_sort_indexer" not in txt and "_build_group_sorted_indexer_numba" not in txt:
            continue
        if "ikey_count" not in txt and "count_ikey" not in txt:
            continue

        def is_code_counts(e: ast.AST) -> bool:
            c = attr_chain(e)
            if c == ("self", "ikey_count"):
                return True
            return isinstance(e, ast.Call) and attr_chain(e.func) == ("self", "count_ikey")

        def permuted(e: ast.AST) -> bool:
            return isinstance(e, ast.Subscript) and attr_chain(e.slice) == ("self", "_labels_argsort")

        flags = {s.targets[0].id for s in walk_no_nested(f.node) if isinstance(s, ast.Assign) and len(s.targets) == 1
                 and isinstance(s.targets[0], ast.Name) and "_index_is_sorted" in norm(s.value) and "_sort" in norm(s.value)
                 and isinstance(s.value, ast.BoolOp)}
        for p in enumerate_paths(f.node.body, limit=60000):
            if p.exit == "raise" or infeasible(p):
                continue
            no_sort = any(isinstance(t, ast.Name) and t.id in flags and pol is False for t, pol in p.conds)
            state: Dict[str, str] = {}

            def kind(e: ast.AST) -> Optional[str]:
                if is_code_counts(e):
                    return "code"
                if isinstance(e, ast.Name):
                    return state.get(e.id)
                if permuted(e):
                    k = kind(e.value)
                    return "label" if k else None
                if isinstance(e, ast.Subscript):
                    return None
                return None
            for st in p.stmts:
                # sizing uses inside this statement
                for c in ast.walk(st):
                    if isinstance(c, ast.Call) and (call_name(c) or norm(c.func)).split(".")[-1] in SIZERS:
                        args = list(c.args) + [k.value for k in c.keywords]
                        if isinstance(c.func, ast.Attribute) and (call_name(c) or norm(c.func)).split(".")[-1] in ("cumsum", "repeat") \
                                and norm(c.func.value) not in ("np", "numpy"):
                            args.append(c.func.value)           # counts.cumsum()
                        for a in args:
                            for x in ast.walk(a):
                                if permuted(x):
                                    continue
                                k = kind(x) if isinstance(x, (ast.Name, ast.Attribute, ast.Call)) else None
                                inside_perm = any(permuted(y) and any(z is x for z in ast.walk(y.value)) for y in ast.walk(a))
                                if k == "code" and not inside_perm and not no_sort:
                                    n += 1
                                    res.bad(f, c, f"{f.qualname}: {norm(c)[:80]}",
                                            f"per-group counts in code (first-appearance) order ({norm(x)}) size the groups of the group-sorted "
                                            f"layout, which is in sorted-label order: without [self._labels_argsort] the groups are cut with "
                                            f"their neighbours' sizes whenever first appearance is not ascending", path=p.describe())
                                elif k is not None or (is_code_counts(x) and inside_perm):
                                    n += 1
                                    res.ok(f, c, f"{f.qualname}: {norm(c)[:80]}", "counts in label order" if not no_sort else "no sorting on this path", nontrivial=False)
                if isinstance(st, ast.Assign) and len(st.targets) == 1 and isinstance(st.targets[0], ast.Name):
                    k = kind(st.value)
                    if k:
                        state[st.targets[0].id] = k
                    else:
                        state.pop(st.targets[0].id, None)
    seen, uniq = set(), []
    for v in res.violations:
        if v.key() not in seen:
            seen.add(v.key()); uniq.append(v)
    res.violations = uniq
    seen_i, uniq_i = set(), []
    for i in res.instances:
        k = (i.verdict, i.function, i.construct)
        if k not in seen_i:
            seen_i.add(k); uniq_i.append(i)
    res.instances = uniq_i
    if len([i for i in res.instances]) < 4:
        raise AnalysisError(f"P25: only {len(res.instances)} sizing uses of group counts found in the group-sorted-layout methods (floor 4)")
    return res


# ------------------------------------------------------------------------------------------------ P26 (mean by floor division)

def rule_P26(repo: Repo) -> RuleResult:
    """A mean over NumPy arrays is never an integer floor division by the group counts.  NumPy's `sum // count` with a zero
    count is 0 (plus a warning), not a null: the mean of an empty / all-null / fully masked group of timestamps becomes the
    epoch (1970-01-01) instead of NaT.  True division gives NaN, which the cast turns into NaT.  (pandas Series `//` maps a zero
    divisor to NaN, so mean_from_sum_count, which is handed Series, is checked for exactly that: its operands must be Series.)"""
    res = RuleResult("P26", "group means over NumPy arrays use true division by the counts (a zero count must give a null, not 0)")
    nb = repo.mod("groupby.numba")
    n = 0
    for f in nb.functions.values():
        if f.is_njit:
            continue
        counts: Set[str] = set()
        for s in walk_no_nested(f.node):
            if isinstance(s, ast.Assign) and isinstance(s.targets[0], ast.Tuple) and len(s.targets[0].elts) == 2 \
                    and isinstance(s.targets[0].elts[1], ast.Name) and isinstance(s.value, ast.Call) \
                    and ((call_name(s.value) or "").startswith("group_") or (call_name(s.value) or "") in ("_group_func_wrap", "_apply_group_method_single_chunk")):
                counts.add(s.targets[0].elts[1].id)
        if not counts:
            continue
        for b in walk_no_nested(f.node):
            if isinstance(b, ast.BinOp) and isinstance(b.op, (ast.Div, ast.FloorDiv)) and _names(b.right) & counts:
                n += 1
                if isinstance(b.op, ast.FloorDiv):
                    res.bad(f, b, f"{f.qualname}: {norm(b)}",
                            "NumPy integer floor division by the group counts: a group with a zero count (empty, all-null or fully masked) gets "
                            "0 - the epoch for timestamps - instead of a null; the single-pass answer no longer equals the per-group definition")
                else:
                    res.ok(f, b, f"{f.qualname}: {norm(b)}", "true division: a zero count gives NaN / NaT")
        for c in walk_no_nested(f.node):
            if isinstance(c, ast.Call) and norm(c.func) in ("np.true_divide", "np.divide", "numpy.true_divide", "numpy.divide") \
                    and len(c.args) >= 2 and _names(c.args[1]) & counts:
                n += 1
                res.ok(f, c, f"{f.qualname}: {norm(c)}", "true division: a zero count gives NaN / NaT")
            if isinstance(c, ast.Call) and norm(c.func) in ("np.floor_divide", "numpy.floor_divide") and len(c.args) >= 2 and _names(c.args[1]) & counts:
                n += 1
                res.bad(f, c, f"{f.qualname}: {norm(c)}", "NumPy integer floor division by the group counts: a zero count gives 0 (the epoch), not a null")
    if n < 1:
        raise AnalysisError("P26: no division of group sums by group counts found in numba.py (floor 1)")
    m = repo.func("util", "mean_from_sum_count")
    ann = {a.arg: norm(a.annotation) if a.annotation is not None else "" for a in m.node.args.args}
    fd = [b for b in walk_no_nested(m.node) if isinstance(b, ast.BinOp) and isinstance(b.op, ast.FloorDiv)]
    for b in fd:
        if all("Series" in ann.get(x, "") for x in _names(b.right) if x in ann) and (_names(b.right) & set(ann)):
            res.ok(m, b, f"mean_from_sum_count: {norm(b)}", "pandas Series floor division: a zero divisor gives NaN -> NaT", nontrivial=False)
        else:
            res.bad(m, b, f"mean_from_sum_count: {norm(b)}", "floor division by counts that are not declared pandas Series: NumPy semantics give 0 for a zero count")
    return res


# ------------------------------------------------------------------------------------------------ A10 / A11 / A12 (facade)

def rule_A10(repo: Repo) -> RuleResult:
    """The value columns the DataFrame facade hands to the engine are exactly the selected columns: _values_to_group returns a
    frame built from `self._obj[col] for col in self.value_columns` with no filter in the comprehension and nothing applied on
    top of it (a `.select_dtypes(..)`, `.dropna(..)`, `.filter(..)` or a slice silently removes columns the engine and pandas
    aggregate); the Series facade hands over the object itself."""
    res = RuleResult("A10", "facade value columns: exactly the selected columns, unfiltered")
    from .canon import subst_single_defs
    api = repo.mod("groupby.api")
    f = api.func("DataFrameGroupBy._values_to_group")
    rets = [r for r in walk_no_nested(f.node) if isinstance(r, ast.Return) and r.value is not None]
    if len(rets) != 1:
        raise AnalysisError(f"A10: DataFrameGroupBy._values_to_group has {len(rets)} returns (expected 1)")
    v = subst_single_defs(f, rets[0].value)
    comps = [c for c in ast.walk(v) if isinstance(c, (ast.DictComp, ast.ListComp, ast.GeneratorExp))]
    ok_outer = (isinstance(v, ast.Call) and norm(v.func) in ("pd.DataFrame", "pd.concat", "dict")) or isinstance(v, ast.DictComp)
    ok_comp = len(comps) == 1 and len(comps[0].generators) == 1 and not comps[0].generators[0].ifs \
        and attr_chain(comps[0].generators[0].iter) == ("self", "value_columns")
    if ok_comp:
        c = comps[0]
        tgt = norm(c.generators[0].target)
        val = c.value if isinstance(c, ast.DictComp) else c.elt
        ok_comp = any(isinstance(x, ast.Subscript) and attr_chain(x.value) == ("self", "_obj") and norm(x.slice) == tgt for x in ast.walk(val))
    construct = f"DataFrameGroupBy._values_to_group: return {norm(v)[:90]}"
    if ok_outer and ok_comp:
        res.ok(f, rets[0], construct, "one column of the object per selected value column")
    elif not ok_outer:
        res.bad(f, rets[0], construct,
                "something is applied on top of the frame of selected value columns (or it is not built from them): a dtype / null / "
                "label filter at this point silently removes value columns from every DataFrame facade result, although the engine and "
                "pandas aggregate them")
    else:
        res.bad(f, rets[0], construct, "the frame handed to the engine is not `self._obj[col] for col in self.value_columns` without a filter")
    g = api.func("SeriesGroupBy._values_to_group")
    rets = [r for r in walk_no_nested(g.node) if isinstance(r, ast.Return) and r.value is not None]
    if len(rets) == 1 and attr_chain(subst_single_defs(g, rets[0].value)) == ("self", "_obj"):
        res.ok(g, rets[0], "SeriesGroupBy._values_to_group: return self._obj", "")
    else:
        res.bad(g, rets[0] if rets else g.node, f"SeriesGroupBy._values_to_group: return {norm(rets[0].value)[:60] if rets else '?'}",
                "the Series facade must hand the grouped Series itself to the engine")
    return res


def rule_A11(repo: Repo) -> RuleResult:
    """Key order of the DataFrame facade.  `by` is processed entry by entry and every entry contributes its key array at once -
    on every non-raising path through the per-entry loop exactly one key is appended to the list the grouping is built from -
    so the index levels of the result come in the order the keys were given (column names, arrays, callables and index-level
    names may be mixed); `level=` keys follow.  An entry that is only noted and resolved later moves to the end."""
    res = RuleResult("A11", "facade key order: every `by` entry appends its key at once, in the order given; `level` keys after them")
    api = repo.mod("groupby.api")
    f = api.func("DataFrameGroupBy._from_by_keys")
    by_p = "by"
    gcalls = [c for c in walk_no_nested(f.node) if isinstance(c, ast.Call) and norm(c.func) == "GroupBy" and c.args and isinstance(c.args[0], ast.Name)]
    if len(gcalls) != 1:
        raise AnalysisError("A11: the construction GroupBy(<key list>) in DataFrameGroupBy._from_by_keys is not identified")
    keys = gcalls[0].args[0].id
    loops = [l for l in walk_no_nested(f.node) if isinstance(l, ast.For) and isinstance(l.iter, ast.Name) and l.iter.id == by_p]
    if len(loops) != 1:
        raise AnalysisError(f"A11: {len(loops)} loops over `{by_p}` in DataFrameGroupBy._from_by_keys (expected 1)")
    loop = loops[0]

    def appends(stmts) -> int:
        n_ = 0
        for st in stmts:
            for c in ast.walk(st):
                if isinstance(c, ast.Call) and isinstance(c.func, ast.Attribute) and c.func.attr in ("append", "extend", "insert") \
                        and isinstance(c.func.value, ast.Name) and c.func.value.id == keys:
                    n_ += 1
        return n_
    n = 0
    for p in enumerate_paths(loop.body, split_bool=False):
        if p.exit == "raise":
            continue
        n += 1
        k = appends(p.stmts)
        desc = p.describe()[:90]
        if k == 1:
            res.ok(f, loop, f"per-entry path {desc}: 1 key appended", "", nontrivial=False)
        else:
            res.bad(f, loop, f"per-entry path {desc}: {k} keys appended to {keys}",
                    f"an entry of `{by_p}` does not contribute its key to {keys} at once (it is skipped, or noted and resolved after the loop): "
                    f"the keys - hence the index levels of every result - no longer come in the order they were given", path=p.describe())
    if n < 5:
        raise AnalysisError(f"A11: only {n} non-raising paths through the per-entry loop (floor 5)")
    # level keys after the by keys
    lv = [l for l in walk_no_nested(f.node) if isinstance(l, ast.For) and l is not loop and appends(l.body)]
    if lv and all(l.lineno > loop.lineno for l in lv):
        res.ok(f, lv[0], f"`level` keys appended after the `{by_p}` keys", "")
    elif lv:
        res.bad(f, lv[0], "`level` keys appended before the `by` keys", "keys given through level= must follow the keys given through by= (pandas order)")
    # nothing re-orders the key list afterwards
    for c in walk_no_nested(f.node):
        if isinstance(c, ast.Call) and isinstance(c.func, ast.Attribute) and isinstance(c.func.value, ast.Name) and c.func.value.id == keys \
                and c.func.attr in ("sort", "reverse"):
            res.bad(f, c, norm(c), "the key list is re-ordered before the grouping is built")
        if isinstance(c, ast.Call) and norm(c.func) in ("sorted", "reversed", "set") and c.args and norm(c.args[0]) == keys:
            res.bad(f, c, norm(c), "the key list is re-ordered before the grouping is built")
    return res


def rule_A12(repo: Repo) -> RuleResult:
    """The facade relabels engine results, it never re-aligns them.  pd.Series(X, index=I) / pd.DataFrame(X, index=I) with X a
    pandas object LOOKS UP the labels I in X's own index (reindexing); only for a bare array it attaches I position by
    position.  Engine results (self._grouper.<op>(..)) are pandas objects, so they may reach such a constructor only as
    .values / .to_numpy() / np.asarray(..)."""
    res = RuleResult("A12", "facade: engine results are relabelled by position, never passed with index= to a pandas constructor (which re-aligns by label)")
    api = repo.mod("groupby.api")
    n = 0
    for f in api.functions.values():
        engine_locals = {s.targets[0].id for s in walk_no_nested(f.node) if isinstance(s, ast.Assign) and len(s.targets) == 1
                         and isinstance(s.targets[0], ast.Name) and any(
                             isinstance(c, ast.Call) and attr_chain(c.func) and attr_chain(c.func)[:2] == ("self", "_grouper") for c in [s.value])}
        for c in walk_no_nested(f.node):
            if not (isinstance(c, ast.Call) and norm(c.func) in ("pd.Series", "pd.DataFrame") and any(k.arg == "index" for k in c.keywords) and c.args):
                continue
            data = c.args[0]
            direct = [x for x in ast.walk(data) if (isinstance(x, ast.Call) and attr_chain(x.func) and attr_chain(x.func)[:2] == ("self", "_grouper"))
                      or (isinstance(x, ast.Name) and x.id in engine_locals)]
            if not direct:
                continue
            n += 1
            stripped = isinstance(data, ast.Attribute) and data.attr == "values" \
                or (isinstance(data, ast.Call) and isinstance(data.func, ast.Attribute) and data.func.attr in ("to_numpy", "to_list", "tolist")) \
                or (isinstance(data, ast.Call) and norm(data.func) in ("np.asarray", "np.array", "numpy.asarray"))
            if stripped:
                res.ok(f, c, f"{f.qualname}: {norm(c)[:90]}", "bare values: labels attached by position")
            else:
                res.bad(f, c, f"{f.qualname}: {norm(c)[:90]}",
                        "an engine result (a pandas object with its own index) is passed to a pandas constructor together with index=: the "
                        "constructor looks the new labels up in the result's index instead of relabelling by position, so with any index "
                        "other than the default RangeIndex rows get other rows' values or NaN")
    if n == 0:
        res.ok(api.func("BaseGroupBy.cumcount"), api.func("BaseGroupBy.cumcount").node, "no engine result is handed to a pandas constructor with index=", "", nontrivial=False)
    return res


# ------------------------------------------------------------------------------------------------ P27 / P26b / P2c / P28

def rule_P27(repo: Repo) -> RuleResult:
    """Transform results carry the input's index.  In the transform branch of _apply_gb_reduction the index of the result is the
    common index of the inputs whenever there is one (of whatever kind: an offset or stepped RangeIndex of a row slice is an
    index like any other), and a fresh RangeIndex over the rows only when the inputs carry none."""
    res = RuleResult("P27", "transform: the result is indexed by the inputs' common index whenever there is one")
    from .canon import canon_func
    f = canon_func(repo, "groupby.core", "GroupBy._apply_gb_reduction")
    arms = [i for i in walk_no_nested(f.node) if isinstance(i, ast.If) and norm(i.test) in ("transform", "not transform")]
    if not arms:
        raise AnalysisError("P27: transform branch of _apply_gb_reduction not found")
    arm = arms[0].body if norm(arms[0].test) == "transform" else arms[0].orelse
    n = 0
    for p in enumerate_paths(arm, split_bool=True):
        if p.exit == "raise" or infeasible(p):
            continue
        has_index = None
        for t, pol in p.conds:
            if isinstance(t, ast.Compare) and len(t.ops) == 1 and norm(t.left) == "common_index" and norm(t.comparators[0]) == "None":
                has_index = (pol is True) if isinstance(t.ops[0], ast.IsNot) else (pol is False)
        defs = [st for st in p.stmts if isinstance(st, ast.Assign) and any(isinstance(t, ast.Name) and t.id == "result_index" for t in st.targets)]
        if not defs:
            continue
        n += 1
        last = defs[-1]
        desc = p.describe()[:80]
        if has_index is True and norm(last.value) != "common_index":
            res.bad(f, last, f"transform: {norm(last)} on {desc}",
                    "the inputs carry an index but the transform result is not labelled with it: values given as a row slice of a longer "
                    "object (offset / stepped RangeIndex) come back with labels 0..n-1 and mis-align when assigned back", path=p.describe())
        elif has_index is False and "RangeIndex" not in norm(last.value):
            res.bad(f, last, f"transform: {norm(last)} on {desc}", "without an input index the transform result must be indexed 0..n-1", path=p.describe())
        elif has_index is None and norm(last.value) != "common_index":
            res.bad(f, last, f"transform: {norm(last)} on {desc}", "the result index is chosen without testing whether the inputs carry an index", path=p.describe())
        else:
            res.ok(f, last, f"transform: {norm(last)} on {desc}", "", nontrivial=False)
    if n < 2:
        raise AnalysisError(f"P27: only {n} transform paths assign the result index (floor 2)")
    return res


def rule_P26b(repo: Repo) -> RuleResult:
    """mean_from_sum_count divides temporal sums by floor division and relies on pandas' semantics (a zero divisor gives NaN,
    hence NaT): both operands must be pandas objects at every call site - pd.Series(..), a column of a DataFrame, or a
    re-indexed one - never bare NumPy arrays (where `//` by a zero count gives 0: the epoch instead of NaT)."""
    res = RuleResult("P26b", "mean_from_sum_count is handed pandas objects (its floor division relies on pandas' zero-divisor semantics)")
    from .canon import subst_single_defs
    core = repo.mod("groupby.core")
    n = 0
    for f in core.functions.values():
        frames = {s.targets[0].id for s in walk_no_nested(f.node) if isinstance(s, ast.Assign) and len(s.targets) == 1
                  and isinstance(s.targets[0], ast.Name) and isinstance(s.value, ast.Call) and norm(s.value.func) in ("pd.DataFrame", "pd.Series")}

        def pandas_object(e: ast.AST) -> bool:
            if isinstance(e, ast.Call) and norm(e.func) in ("pd.Series", "pd.DataFrame"):
                return True
            if isinstance(e, ast.Call) and isinstance(e.func, ast.Attribute) and e.func.attr in ("reindex", "astype", "rename", "copy", "loc", "iloc"):
                return pandas_object(e.func.value)
            if isinstance(e, ast.Subscript):
                return pandas_object(e.value)
            if isinstance(e, ast.Attribute) and e.attr in ("loc", "iloc"):
                return pandas_object(e.value)
            if isinstance(e, ast.Name):
                return e.id in frames
            return False
        for c in ast.walk(f.node):
            if isinstance(c, ast.Call) and (call_name(c) or norm(c.func)).split(".")[-1] == "mean_from_sum_count":
                args = list(c.args) + [k.value for k in c.keywords]
                for a in args:
                    n += 1
                    if pandas_object(a):
                        res.ok(f, c, f"{f.qualname}: mean_from_sum_count(.. {norm(a)[:50]} ..)", "pandas object")
                    else:
                        res.bad(f, c, f"{f.qualname}: mean_from_sum_count(.. {norm(a)[:50]} ..)",
                                "mean_from_sum_count is handed something that is not visibly a pandas object: for temporal sums it floor-divides, "
                                "and NumPy's `//` by a zero count is 0 - rows with a null key or an empty / fully masked group get the epoch "
                                "(1970-01-01) instead of NaT")
    if n < 4:
        raise AnalysisError(f"P26b: only {n} operands of mean_from_sum_count found (floor 4)")
    return res


def rule_P2c(repo: Repo) -> RuleResult:
    """Every value column is divided by ITS OWN counts.  The kernel results arrive as (columns, counts) in parallel; the mean
    pairs them position by position.  The per-column counts are never indexed by a constant (counts[0] applied to all columns:
    columns whose missing values fall in different rows get each other's counts)."""
    res = RuleResult("P2c", "mean: column j is divided by the counts of column j (no constant index into the per-column counts)")
    from .canon import canon_func
    f = canon_func(repo, "groupby.core", "GroupBy._apply_gb_reduction")
    bad = [x for x in walk_no_nested(f.node) if isinstance(x, ast.Subscript) and isinstance(x.value, ast.Name) and x.value.id == "counts"
           and const_int(x.slice) is not None and isinstance(x.ctx, ast.Load)]
    for x in bad:
        res.bad(f, x, f"_apply_gb_reduction: {norm(x)}",
                "the per-column counts are indexed by a constant: the counts of one value column are applied to every column, so a column "
                "whose missing values sit in other rows is divided by the wrong count (mean != sum / count)")
    pairs = [c for c in ast.walk(f.node) if isinstance(c, ast.Call) and norm(c.func) == "zip" and len(c.args) >= 2
             and {norm(a) for a in c.args} >= {"result_columns", "counts"}]
    if pairs:
        res.ok(f, pairs[0], f"_apply_gb_reduction: {norm(pairs[0])}", "columns and their counts are paired position by position")
    elif not bad:
        raise AnalysisError("P2c: the pairing of result columns with their counts (zip(result_columns, counts)) is not found")
    return res


def rule_P28(repo: Repo) -> RuleResult:
    """Results converted back to pandas / polars keep the dtype the conversion gave them.  A series that comes out of
    _convert_arr_to_pandas_series / _convert_arr_to_polars_series is not passed through a pandas operation that silently
    changes an integer dtype (`.mask(..)` / `.where(..)` insert NaN and turn int64 into float64: integers above 2**53 are
    rounded, cumulative sums stop being exact)."""
    res = RuleResult("P28", "converted results are not passed through dtype-changing pandas operations (.mask / .where / float casts)")
    core = repo.mod("groupby.core")
    UPCASTING = ("mask", "where")
    n = 0
    for f in core.functions.values():
        conv = {s.targets[0].id for s in walk_no_nested(f.node) if isinstance(s, ast.Assign) and len(s.targets) == 1
                and isinstance(s.targets[0], ast.Name) and isinstance(s.value, ast.Call)
                and (call_name(s.value) or norm(s.value.func)).split(".")[-1] in ("_convert_arr_to_pandas_series", "_convert_arr_to_polars_series")}
        sites = [c for c in walk_no_nested(f.node) if isinstance(c, ast.Call)
                 and (call_name(c) or norm(c.func)).split(".")[-1] in ("_convert_arr_to_pandas_series", "_convert_arr_to_polars_series")]
        n += len(sites)
        for c in walk_no_nested(f.node):
            if isinstance(c, ast.Call) and isinstance(c.func, ast.Attribute) and c.func.attr in UPCASTING:
                base = c.func.value
                direct = isinstance(base, ast.Call) and (call_name(base) or norm(base.func)).split(".")[-1] in (
                    "_convert_arr_to_pandas_series", "_convert_arr_to_polars_series")
                if direct or (isinstance(base, ast.Name) and base.id in conv):
                    res.bad(f, c, f"{f.qualname}: {norm(c)[:80]}",
                            f".{c.func.attr}(..) on a converted result inserts NaN and turns an integer result into float64: values above "
                            f"2**53 are rounded at rows that do have a group (cumulative sums / counts are no longer exact)")
    if n < 5:
        raise AnalysisError(f"P28: only {n} conversions of kernel results to pandas / polars found (floor 5)")
    if not res.violations:
        res.ok(core.func("GroupBy._convert_arr_to_pandas_series"), core.func("GroupBy._convert_arr_to_pandas_series").node,
               f"{n} conversions; none is post-processed by .mask / .where", "")
    return res


# ------------------------------------------------------------------------------------------------ round-3 rules: S6 S7 S8 W5 Q1 Q2 P29 A13

def rule_S6(repo: Repo) -> RuleResult:
    """No memo tables on the grouping.  Outside construction and the unifier no method stores INTO a container held by the
    grouping (`self.x[key] = ..`, `self.x.append(..)`, `self.__dict__[..] = ..`, setdefault / update on them): such a table makes
    the answer of a call depend on which calls came before (a key that leaves out one input - the kernel, the mask's content -
    returns another call's answer)."""
    res = RuleResult("S6", "no method stores into a container attribute of the grouping (memo tables make results history-dependent)")
    core = repo.mod("groupby.core")
    n = 0
    for name, m in core.methods("GroupBy").items():
        n += 1
        short = m.name
        if short in ("__init__", "_unify_group_key_chunks", "_factorize_group_key_in_chunks"):
            continue
        for x in walk_no_nested(m.node):
            tgt = None
            if isinstance(x, (ast.Assign, ast.AugAssign)):
                ts = x.targets if isinstance(x, ast.Assign) else [x.target]
                for t in ts:
                    b = t
                    sub = False
                    while isinstance(b, ast.Subscript):
                        b = b.value
                        sub = True
                    c = attr_chain(b)
                    if sub and c and c[0] == "self" and len(c) >= 2:
                        tgt = t
            if isinstance(x, ast.Call) and isinstance(x.func, ast.Attribute) and x.func.attr in ("append", "extend", "update", "setdefault", "add", "insert", "pop", "clear"):
                c = attr_chain(x.func.value)
                if c and c[0] == "self" and len(c) >= 2:
                    tgt = x
            if tgt is not None:
                res.bad(m, tgt, f"{m.qualname}: {norm(tgt)[:80]}",
                        "a method stores into a container that belongs to the grouping: the stored entry is state that later calls read, so "
                        "results depend on the history of the object (e.g. a memo keyed without one of the inputs returns another call's answer)")
    if not res.violations:
        res.ok(core.func("GroupBy.__init__"), core.func("GroupBy.__init__").node, f"{n} methods: no store into a container attribute of self", "")
    return res


def rule_S7(repo: Repo) -> RuleResult:
    """The 'labels are already sorted' flag is only ever set from evidence.  self._index_is_sorted may be assigned (a) False,
    (b) a value computed from `.is_monotonic_increasing` of the labels, (c) the source grouping's flag in the copy constructor,
    (d) True directly after the WHOLE result index was sorted (`self._result_index = self._result_index.sort_values()` /
    np.sort / sorted of it as the preceding statement in the same block).  A flag set from the *request* to sort, or after
    sorting only part of the labels, makes _labels_argsort the identity for labels that are not in order."""
    res = RuleResult("S7", "_index_is_sorted is set only from evidence (monotonicity test, copy, or a full sort of the result index just before)")
    core = repo.mod("groupby.core")
    n = 0
    for name, m in core.methods("GroupBy").items():
        blocks = []

        def collect(body):
            blocks.append(body)
            for st in body:
                for fld in ("body", "orelse", "finalbody"):
                    sub = getattr(st, fld, None)
                    if isinstance(sub, list) and sub and isinstance(sub[0], ast.stmt) and not isinstance(st, (ast.FunctionDef, ast.ClassDef)):
                        collect(sub)
                for h in getattr(st, "handlers", []) or []:
                    collect(h.body)
        collect(m.node.body)
        for body in blocks:
            for i, st in enumerate(body):
                if not isinstance(st, ast.Assign):
                    continue
                tl = []
                for t in st.targets:
                    tl.extend(t.elts if isinstance(t, ast.Tuple) else [t])
                vl = st.value.elts if isinstance(st.value, ast.Tuple) and len(st.value.elts) == len(tl) else [st.value] * len(tl)
                for t, v in zip(tl, vl):
                    if attr_chain(t) != ("self", "_index_is_sorted"):
                        continue
                    n += 1
                    txt = norm(v)
                    ok = (isinstance(v, ast.Constant) and v.value is False) or "is_monotonic_increasing" in txt or txt.endswith("._index_is_sorted")
                    if not ok and isinstance(v, ast.Constant) and v.value is True and i > 0:
                        prev = body[i - 1]
                        ptxt = norm(prev)
                        ok = isinstance(prev, ast.Assign) and attr_chain(prev.targets[0]) == ("self", "_result_index") and (
                            ptxt.replace(" ", "") in ("self._result_index=self._result_index.sort_values()",)
                            or (isinstance(prev.value, ast.Call) and norm(prev.value.func) in ("np.sort", "sorted") and prev.value.args
                                and attr_chain(prev.value.args[0]) == ("self", "_result_index")))
                    construct = f"{m.qualname}: {norm(st)[:70]}"
                    if ok:
                        res.ok(m, st, construct, "set from evidence")
                    else:
                        res.bad(m, st, construct,
                                "the flag that makes the label permutation the identity is set without evidence that ALL labels are in order "
                                "(from the request to sort, or after sorting only a part of the labels): default sort=True results then list "
                                "their labels in first-appearance / partially sorted order")
    if n < 2:
        raise AnalysisError(f"S7: only {n} assignments of _index_is_sorted found (floor 2)")
    return res


def rule_S8(repo: Repo) -> RuleResult:
    """Representation-dependent caches are read only where the representation is known.  _group_key_lengths and
    _chunk_offsets are cached when first read; after _unify_group_key_chunks(keep_chunked=False) they still describe the old
    chunks.  A decision 'is the key chunked?' must therefore be taken from self.key_is_chunked (live), never from the cached
    lengths or from something sized by them."""
    res = RuleResult("S8", "whether the key is chunked is decided by self.key_is_chunked, not by the cached chunk lengths")
    core = repo.mod("groupby.core")
    STALE = ("_group_key_lengths", "_chunk_offsets")
    n = 0
    for name, m in core.methods("GroupBy").items():
        sized: Set[str] = set()
        for s in walk_no_nested(m.node):
            if isinstance(s, ast.Assign) and len(s.targets) == 1 and isinstance(s.targets[0], ast.Name) \
                    and any(isinstance(a, ast.Attribute) and a.attr in STALE for a in ast.walk(s.value)):
                sized.add(s.targets[0].id)
        for i in walk_no_nested(m.node):
            if not isinstance(i, (ast.If, ast.IfExp, ast.While)):
                continue
            t = i.test
            uses = [x for x in ast.walk(t) if (isinstance(x, ast.Attribute) and x.attr in STALE) or (isinstance(x, ast.Name) and x.id in sized)]
            if not uses:
                continue
            lens = [c for c in ast.walk(t) if isinstance(c, ast.Call) and norm(c.func) == "len" and c.args and any(u is c.args[0] or any(u is y for y in ast.walk(c.args[0])) for u in uses)]
            if lens and any(isinstance(c, ast.Compare) for c in ast.walk(t)):
                n += 1
                res.bad(m, i, f"{m.qualname}: if {norm(t)[:70]}",
                        "a branch is chosen by the number of cached key chunks: after the key was unified on this object the cached lengths are "
                        "stale, so a reused grouping takes the chunked route with a key that is one array (results depend on history)")
    if not res.violations:
        res.ok(core.func("GroupBy._resolve_mask_argument_into_chunks"), core.func("GroupBy._resolve_mask_argument_into_chunks").node,
               "no branch is decided by the cached chunk lengths", "")
    return res


def rule_W5(repo: Repo) -> RuleResult:
    """Null tests in dtype-generic kernels.  The rolling / cumulative kernels receive temporal data as int64 views whose null is
    the integer sentinel, and a `null_value` of the value dtype; np.isnan is false for every integer, so a null test on a value
    (an element of the input or of a buffer that holds inputs) must be is_null(..), never np.isnan(..) / x != x."""
    res = RuleResult("W5", "dtype-generic kernels test values for null with is_null, never with np.isnan")
    nb = repo.mod("groupby.numba")
    n = 0
    for f in nb.functions.values():
        if not f.is_njit or "null_value" not in f.named_params:
            continue
        for c in walk_no_nested(f.node):
            if isinstance(c, ast.Call) and norm(c.func) in ("np.isnan", "numpy.isnan", "math.isnan", "isnan"):
                n += 1
                res.bad(f, c, f"{f.qualname}: {norm(c)}",
                        "np.isnan in a kernel that is also run on int64 views of temporal data (null = integer sentinel): the test is never "
                        "true there, so a NaT is treated as a number (e.g. subtracted from the running sum when it leaves the window)")
            if isinstance(c, ast.Call) and norm(c.func) == "is_null":
                n += 1
                res.ok(f, c, f"{f.qualname}: {norm(c)}", "", nontrivial=False)
    if n < 4:
        raise AnalysisError(f"W5: only {n} null tests found in the dtype-generic kernels (floor 4)")
    return res


def rule_Q1(repo: Repo) -> RuleResult:
    """Polars dtypes are compared with ==, never with `is`: `series.dtype` is an instance, `pl.Categorical` the class, so
    `dtype is pl.Categorical` is always False."""
    res = RuleResult("Q1", "polars dtypes are compared by equality, not identity")
    n = 0
    for mod in repo.modules.values():
        for f in mod.functions.values():
            for c in walk_no_nested(f.node):
                if isinstance(c, ast.Compare) and len(c.ops) == 1:
                    r = attr_chain(c.comparators[0])
                    if r and len(r) == 2 and r[0] == "pl" and r[1][:1].isupper() and "dtype" in norm(c.left):
                        n += 1
                        if isinstance(c.ops[0], (ast.Is, ast.IsNot)):
                            res.bad(f, c, f"{f.qualname}: {norm(c)}",
                                    "identity comparison of a polars dtype instance with the dtype class is always False: the branch for this "
                                    "dtype (e.g. category order of polars Categorical keys) is never taken")
                        else:
                            res.ok(f, c, f"{f.qualname}: {norm(c)}", "", nontrivial=False)
    if n < 3:
        raise AnalysisError(f"Q1: only {n} polars dtype comparisons found (floor 3)")
    return res


def rule_Q2(repo: Repo) -> RuleResult:
    """Defaults of numeric parameters are chosen with `x if x is not None else d`, never with `x or d`: 0 is a legitimate
    value of min_periods / n / ddof / window and is falsy."""
    res = RuleResult("Q2", "numeric parameters are defaulted by an `is None` test, not by truthiness (`x or default`)")
    NUM = {"min_periods", "window", "n", "ddof", "n_threads", "precision", "periods", "q", "alpha", "halflife", "min_count"}
    n = 0
    for modname in ("groupby.api", "groupby.core", "groupby.numba", "emas", "nanops", "util"):
        for f in repo.mod(modname).functions.values():
            params = set(f.named_params) & NUM
            if not params:
                continue
            for b in walk_no_nested(f.node):
                if isinstance(b, ast.BoolOp) and isinstance(b.op, ast.Or) and isinstance(b.values[0], ast.Name) and b.values[0].id in params:
                    par = None
                    # used as a value (assigned / passed), not as a branch test
                    tests = {id(x.test) for x in walk_no_nested(f.node) if isinstance(x, (ast.If, ast.IfExp, ast.While))}
                    if id(b) in tests:
                        continue
                    n += 1
                    res.bad(f, b, f"{f.qualname}: {norm(b)}",
                            f"`{b.values[0].id} or ..` replaces a legitimate 0 by the default: the parameter must be defaulted with an `is None` test")
            for e in walk_no_nested(f.node):
                if isinstance(e, ast.IfExp) and isinstance(e.test, ast.Compare) and isinstance(e.test.left, ast.Name) and e.test.left.id in params \
                        and isinstance(e.test.ops[0], (ast.Is, ast.IsNot)):
                    n += 1
                    res.ok(f, e, f"{f.qualname}: {norm(e)[:70]}", "", nontrivial=False)
    if not res.violations and n == 0:
        res.ok(repo.func("groupby.api", "BaseGroupByRolling.__init__"), repo.func("groupby.api", "BaseGroupByRolling.__init__").node, "no truthiness default of a numeric parameter", "", nontrivial=False)
    return res


def rule_P29(repo: Repo) -> RuleResult:
    """Row selection keeps the input's labels.  In _get_row_selection, with keep_input_index the selected rows are labelled by
    taking the positions from the inputs' common index whenever there is one (an offset / stepped RangeIndex of a row slice is
    an index like any other); positions themselves are labels only when the inputs carry no index."""
    res = RuleResult("P29", "head/tail/nth: selected rows keep the labels of the inputs' index whenever there is one")
    f = repo.func("groupby.core", "GroupBy._get_row_selection")
    n = 0
    for t in walk_no_nested(f.node):
        if isinstance(t, (ast.If, ast.IfExp)) and any(isinstance(c, ast.Call) and norm(c.func) == "isinstance" and len(c.args) == 2
                                                       and "RangeIndex" in norm(c.args[1]) for c in ast.walk(t.test)):
            n += 1
            res.bad(f, t, f"_get_row_selection: {norm(t.test)[:80]}",
                    "the labels of the selected rows depend on whether the input index is a RangeIndex: a row slice of a longer object "
                    "(offset / stepped RangeIndex) comes back labelled 0, 1, 2, .. instead of with its own labels")
    takes = [x for x in walk_no_nested(f.node) if (isinstance(x, ast.Subscript) and "index" in norm(x.value).lower() and "iloc" in norm(x.slice))
             or (isinstance(x, ast.Call) and isinstance(x.func, ast.Attribute) and x.func.attr == "take" and "index" in norm(x.func.value).lower())]
    if takes:
        res.ok(f, takes[0], f"_get_row_selection: {norm(takes[0])[:70]}", "labels taken from the inputs' index by position")
    elif not res.violations:
        raise AnalysisError("P29: the positional take of the input index in _get_row_selection is not found")
    return res


def rule_A13(repo: Repo) -> RuleResult:
    """Facade delegations add no policy of their own.  (a) A facade method passes a CONSTANT for a parameter of the engine
    method only if the facade has no parameter of that name and the constant equals the engine's default - otherwise facade
    and engine (and pandas) disagree (skip_na=False poisons cumulative results after a null).  (b) Iteration yields rows of the
    whole grouped object (`self._obj.iloc[..]`), not of the value columns (key columns would be dropped)."""
    res = RuleResult("A13", "facade: constants passed to the engine equal its defaults; iteration yields rows of the whole object")
    api = repo.mod("groupby.api")
    core = repo.mod("groupby.core")
    engine = {q.split(".", 1)[1]: f for q, f in core.functions.items() if q.startswith("GroupBy.") and q.count(".") == 1}
    n = 0
    for f in api.functions.values():
        for c in walk_no_nested(f.node):
            if not (isinstance(c, ast.Call) and isinstance(c.func, ast.Attribute)):
                continue
            ch = attr_chain(c.func)
            if not (ch and ch[:2] == ("self", "_grouper") and len(ch) == 3 and ch[2] in engine):
                continue
            callee = engine[ch[2]]
            a = callee.node.args
            names = [x.arg for x in a.args]
            defaults = dict(zip(names[len(names) - len(a.defaults):], a.defaults))
            defaults.update({x.arg: d for x, d in zip(a.kwonlyargs, a.kw_defaults) if d is not None})
            for k in c.keywords:
                if k.arg is None or not isinstance(k.value, ast.Constant) or k.arg not in defaults:
                    continue
                n += 1
                d = defaults[k.arg]
                construct = f"{f.qualname} -> GroupBy.{ch[2]}({k.arg}={norm(k.value)})"
                if isinstance(d, ast.Constant) and d.value == k.value.value and type(d.value) is type(k.value.value):
                    res.ok(f, c, construct, "the engine's default", nontrivial=False)
                elif k.arg in f.named_params:
                    res.bad(f, c, construct, f"the facade's own parameter {k.arg!r} is replaced by a constant")
                else:
                    res.bad(f, c, construct,
                            f"the facade fixes {k.arg}={norm(k.value)} although the engine's default is {norm(d)}: facade and engine (and pandas) "
                            f"give different results for the same call")
    it = api.functions.get("BaseGroupBy.__iter__")
    if it is None:
        raise AnalysisError("A13: BaseGroupBy.__iter__ not found")
    subs = [x for x in ast.walk(it.node) if isinstance(x, ast.Subscript) and isinstance(x.value, ast.Attribute) and x.value.attr == "iloc"]
    # (no .iloc at all: A6 reports the label-based selection; the anchor itself is A6's)
    for x in subs:
        base = attr_chain(x.value.value)
        if base == ("self", "_obj"):
            res.ok(it, x, f"__iter__: {norm(x)[:60]}", "rows of the whole grouped object")
        else:
            res.bad(it, x, f"__iter__: {norm(x)[:60]}",
                    "iteration yields rows of something other than the grouped object itself: with keys given as column names the value "
                    "columns exclude the key columns, which silently disappear from every yielded sub-frame")
    return res


def rule_O3(repo: Repo) -> RuleResult:
    """Deny-list of NumPy's permissions to destroy an argument: `overwrite_input=` (median / percentile / quantile) is never
    given anything but False anywhere in the package.  The per-group arrays handed to user functions and reducers may be views
    of the caller's arrays (a contiguous slice needs no copy), so scrambling them in place reaches the caller's data."""
    res = RuleResult("O3", "overwrite_input= is never enabled (NumPy would partially sort an array that may be a view of the caller's data)")
    n = 0
    for mod in repo.modules.values():
        for f in mod.functions.values():
            for c in ast.walk(f.node):
                if isinstance(c, ast.Call):
                    for k in c.keywords:
                        if k.arg == "overwrite_input":
                            n += 1
                            if isinstance(k.value, ast.Constant) and k.value.value is False:
                                res.ok(f, c, f"{f.qualname}: {norm(c)[:70]}", "", nontrivial=False)
                            else:
                                res.bad(f, c, f"{f.qualname}: {norm(c)[:70]}",
                                        "NumPy is allowed to reorder its input in place; the array may be a view of a caller's array "
                                        "(e.g. one group's contiguous block), so the caller's data comes back partially sorted")
    if n == 0:
        res.ok(repo.func("groupby.core", "GroupBy.median"), repo.func("groupby.core", "GroupBy.median").node, "overwrite_input is not used", "", nontrivial=False)
    return res


def rule_K4c(repo: Repo) -> RuleResult:
    """Typed dictionaries that are keyed by combined codes use 64-bit integers: `Dict.empty(key_type, value_type)` with a
    narrower integer type truncates the weighted code sums of large multi-key groupings on every lookup."""
    res = RuleResult("K4c", "numba typed dictionaries for combined codes are 64-bit")
    n = 0
    for mod in repo.modules.values():
        for f in mod.functions.values():
            for c in walk_no_nested(f.node):
                if isinstance(c, ast.Call) and norm(c.func).endswith("Dict.empty"):
                    n += 1
                    types = [norm(a) for a in c.args] + [norm(k.value) for k in c.keywords]
                    narrow = [t for t in types if any(w in t for w in ("int32", "int16", "int8", "uint32", "uint16", "uint8"))]
                    if narrow:
                        res.bad(f, c, f"{f.qualname}: {norm(c)[:70]}",
                                f"the typed dictionary is declared with {narrow}: combined codes beyond that width are truncated, so two key "
                                f"combinations whose weighted sums differ by a multiple of 2**32 fall into one group")
                    else:
                        res.ok(f, c, f"{f.qualname}: {norm(c)[:70]}", "64-bit keys and values")
    if n < 1:
        raise AnalysisError("K4c: no typed dictionary found (floor 1)")
    return res


def rule_D9c(repo: Repo) -> RuleResult:
    """Positions on chunked keys go through the whole key.  In _resolve_mask_argument_into_chunks, on every path where the key
    is chunked and the mask is a positional one (given, not boolean, not a slice) the key chunks are unified and the positions
    are handed on as ONE piece: dealing them to the key chunks keeps how often a row was named but not the order in which rows
    of different chunks were named, which first / last depend on."""
    res = RuleResult("D9c", "positional masks on chunked keys: the key is unified and the positions stay in one piece")
    f = repo.func("groupby.core", "GroupBy._resolve_mask_argument_into_chunks")
    n = 0
    for p in enumerate_paths(f.node.body, limit=60000, split_bool=True):
        if p.exit == "raise" or infeasible(p):
            continue
        chunked = any(norm(t) == "self.key_is_chunked" and pol is True for t, pol in p.conds if isinstance(t, ast.AST))
        given = any(isinstance(t, ast.Compare) and norm(t.left) == "mask" and norm(t.comparators[0]) == "None"
                    and ((isinstance(t.ops[0], ast.IsNot) and pol is True) or (isinstance(t.ops[0], ast.Is) and pol is False))
                    for t, pol in p.conds if isinstance(t, ast.AST))
        is_slice = any(isinstance(t, ast.Call) and norm(t.func) == "isinstance" and "slice" in norm(t) and pol is True for t, pol in p.conds if isinstance(t, ast.AST))
        boolean = any(_establishes_boolean(f, t, pol, {"mask"}, none_counts=False) for t, pol in p.conds if isinstance(t, ast.AST))
        nonbool = any(_establishes_boolean(f, t, (not pol), {"mask"}, none_counts=False) for t, pol in p.conds if isinstance(t, ast.AST)) and not boolean
        if not (chunked and given and nonbool and not is_slice):
            continue
        n += 1
        unified = any(isinstance(c, ast.Call) and (call_name(c) or norm(c.func)).endswith("_unify_group_key_chunks") for st in p.stmts for c in ast.walk(st))
        whole = any(isinstance(st, ast.Assign) and isinstance(st.value, ast.List) and len(st.value.elts) == 1 and norm(st.value.elts[0]) == "mask" for st in p.stmts)
        desc = p.describe()[:90]
        if unified and whole:
            res.ok(f, f.node, f"positional mask on a chunked key: unified, [mask] on {desc}", "")
        else:
            res.bad(f, f.node, f"positional mask on a chunked key on {desc}: unified={unified}, one piece={whole}",
                    "integer positions given for a chunked key are not applied to the key as one array: dealt to the key chunks they lose the "
                    "order in which rows of different chunks were named (first / last then follow chunk order), and a boolean scatter also "
                    "loses repeats", path=p.describe())
    if n < 1:
        raise AnalysisError("D9c: no path for a positional mask on a chunked key found in _resolve_mask_argument_into_chunks")
    return res


# ------------------------------------------------------------------------------------------------ E8 (EMA group codes)

def rule_E8(repo: Repo) -> RuleResult:
    """GroupBy.ema hands the grouped kernel one code per row that identifies the row's GROUP.  On every path the `group_key`
    actual is built from the grouping's own code vector (self.group_ikey) or by repeating 0..ngroups-1 with the per-group
    counts (the group-sorted layout).  Codes taken from an index object (one level of a MultiIndex, a factorised label
    column) identify one key column only: groups that share it would share the kernel's running state."""
    res = RuleResult("E8", "GroupBy.ema: the kernel's row codes are the grouping's own codes (self.group_ikey / 0..ngroups-1 repeated by counts)")
    f = repo.func("groupby.core", "GroupBy.ema")
    binds = [c for c in ast.walk(f.node) if isinstance(c, ast.Call) and any(k.arg == "group_key" for k in c.keywords)]
    if not binds:
        raise AnalysisError("E8: GroupBy.ema no longer binds group_key= for the grouped kernel")
    actual = [k.value for k in binds[0].keywords if k.arg == "group_key"][0]

    def verdict(e: ast.AST, defs: Dict[str, ast.AST], depth: int = 0) -> Tuple[bool, str]:
        txt = norm(e)
        for x in ast.walk(e):
            if attr_chain(x) == ("self", "group_ikey"):
                return True, "self.group_ikey"
        reps = [c for c in ast.walk(e) if isinstance(c, ast.Call) and (call_name(c) or norm(c.func)).split(".")[-1] == "repeat"]
        for c in reps:
            if any(attr_chain(x) == ("self", "ngroups") for x in ast.walk(c)):
                return True, "0..ngroups-1 repeated by the group counts"
        if depth < 4:
            for x in ast.walk(e):
                if isinstance(x, ast.Name) and x.id in defs:
                    ok, why = verdict(defs[x.id], defs, depth + 1)
                    if ok:
                        return ok, why
        return False, txt

    seen = set()
    for p in enumerate_paths(f.node.body, limit=60000):
        if p.exit == "raise" or infeasible(p):
            continue
        defs: Dict[str, ast.AST] = {}
        for st in p.stmts:
            if isinstance(st, ast.Assign) and len(st.targets) == 1 and isinstance(st.targets[0], ast.Name):
                defs[st.targets[0].id] = st.value
        e = defs.get(actual.id) if isinstance(actual, ast.Name) else actual
        if e is None:
            e = actual
        key = norm(e)
        if key in seen:
            continue
        seen.add(key)
        ok, why = verdict(e, defs)
        if ok:
            res.ok(f, e, f"GroupBy.ema: group_key = {key[:80]}", why)
        else:
            res.bad(f, e, f"GroupBy.ema: group_key = {key[:80]}",
                    "the codes handed to the grouped EMA kernel are not derived from the grouping's own codes (self.group_ikey, or "
                    "np.arange(self.ngroups) repeated by the group counts): codes read off an index level identify one key column only, "
                    "so groups that share it share the running state and a group's first rows repeat another group's output",
                    path=p.describe())
    if not seen:
        raise AnalysisError("E8: no path of GroupBy.ema reaches the kernel call")
    return res


# ------------------------------------------------------------------------------------------------ A14 (validation sees the inputs as given)

def rule_A14(repo: Repo) -> RuleResult:
    """_preprocess_arguments validates the inputs AS GIVEN.  The list handed to _validate_input_lengths_and_indexes must not be
    (an alias of) a list whose elements are replaced before the call: the timestamp conversion replaces pandas Series by bare
    arrays, and a validator that sees the replaced elements no longer sees their index (a misaligned temporal Series is then
    grouped by position)."""
    res = RuleResult("A14", "_preprocess_arguments: the validator receives a snapshot of the inputs taken before any element is converted")
    f = repo.func("groupby.core", "GroupBy._preprocess_arguments")
    calls = [c for c in walk_no_nested(f.node) if isinstance(c, ast.Call) and (call_name(c) or "").split(".")[-1] == "_validate_input_lengths_and_indexes"]
    if not calls:
        raise AnalysisError("A14: _preprocess_arguments no longer calls _validate_input_lengths_and_indexes")
    for c in calls:
        if not c.args:
            continue
        arg_names = {n.id for n in ast.walk(c.args[0]) if isinstance(n, ast.Name)}
        closure = set(arg_names)
        changed = True
        while changed:
            changed = False
            for s in walk_no_nested(f.node):
                if isinstance(s, ast.Assign) and len(s.targets) == 1 and isinstance(s.targets[0], ast.Name) and s.targets[0].id in closure \
                        and s.lineno < c.lineno:
                    v = s.value
                    # plain alias (or a conditional alias): the same list object
                    srcs = [v] if isinstance(v, ast.Name) else [v.body, v.orelse] if isinstance(v, ast.IfExp) else []
                    for y in srcs:
                        if isinstance(y, ast.Name) and y.id not in closure:
                            closure.add(y.id)
                            changed = True
        stores = []
        for s in walk_no_nested(f.node):
            if isinstance(s, (ast.Assign, ast.AugAssign)) and s.lineno < c.lineno:
                tg = s.targets if isinstance(s, ast.Assign) else [s.target]
                for t in tg:
                    for e in (t.elts if isinstance(t, (ast.Tuple, ast.List)) else [t]):
                        if isinstance(e, ast.Subscript) and isinstance(e.value, ast.Name) and e.value.id in closure:
                            stores.append((s, e.value.id))
        if stores:
            s, nm = stores[0]
            res.bad(f, c, f"_preprocess_arguments: {norm(c)[:70]} after `{norm(s)[:60]}`",
                    f"the list that is validated is the same object as `{nm}`, whose elements are replaced (timestamp Series -> bare arrays) "
                    f"before the validator runs: the validator no longer sees the pandas index of those inputs, so a misaligned "
                    f"temporal Series of the right length is accepted and grouped by position")
        else:
            res.ok(f, c, f"_preprocess_arguments: {norm(c)[:70]}", "a snapshot taken before the conversion loop")
    return res


# ------------------------------------------------------------------------------------------------ T5 (temporal int views stay integers)

def rule_T5(repo: Repo) -> RuleResult:
    """Exact temporal arithmetic.  The int64 views produced by _cast_timestamps_to_ints reach the kernels as integers: between
    the cast and the restoring astype(orig_dtype) they are never mixed with NaN or cast to float (np.where(.., np.nan, v),
    v.astype(float), v * 1.0): float64 has 53 bits, nanosecond timestamps need 61."""
    res = RuleResult("T5", "temporal values: the int64 views are not routed through float64 between the cast and the restore")
    n = 0
    for modname in ("groupby.numba", "groupby.core"):
        m = repo.mod(modname)
        for f in m.functions.values():
            if f.is_njit or "_cast_timestamps_to_ints" not in norm(f.node):
                continue
            taint: Set[str] = set()
            for s in walk_no_nested(f.node):
                if isinstance(s, ast.Assign) and "_cast_timestamps_to_ints" in norm(s.value):
                    t = s.targets[0]
                    first = t.elts[0] if isinstance(t, (ast.Tuple, ast.List)) and t.elts else t
                    if isinstance(first, ast.Name):
                        taint.add(first.id)
            if not taint:
                continue
            n += 1
            found = False
            # a reduction that is a float by definition (sum of squares for var / std, mean) may convert: exempt the statements
            # under a test that names such an operation
            FLOAT_OPS = ("sum_squares", "var", "std", "mean")
            exempt = set()
            for t in walk_no_nested(f.node):
                if isinstance(t, ast.If) and any(isinstance(k, ast.Constant) and isinstance(k.value, str) and k.value in FLOAT_OPS
                                                 for k in ast.walk(t.test)):
                    for b in t.body:
                        exempt.update(id(x) for x in ast.walk(b))
            for s in walk_no_nested(f.node):
                if not isinstance(s, (ast.Assign, ast.AugAssign, ast.Return, ast.Expr)) or id(s) in exempt:
                    continue
                for e in ast.walk(s):
                    bad = None
                    names = lambda x: {y.id for y in ast.walk(x) if isinstance(y, ast.Name)}
                    if isinstance(e, ast.Call) and norm(e.func) in ("np.where", "numpy.where") and len(e.args) == 3:
                        a, b = e.args[1], e.args[2]
                        if any(norm(z) in ("np.nan", "numpy.nan", "float('nan')", "np.NaN") for z in (a, b)) and (names(a) | names(b)) & _t5_names(f, taint):
                            bad = "mixed with NaN by np.where"
                    elif isinstance(e, ast.Call) and isinstance(e.func, ast.Attribute) and e.func.attr == "astype" and e.args \
                            and norm(e.args[0]).strip("'\"") in ("float", "float64", "np.float64", "numpy.float64", "f8", "np.float32", "float32") \
                            and names(e.func.value) & _t5_names(f, taint):
                        bad = "cast to float"
                    if bad:
                        found = True
                        res.bad(f, e, f"{f.qualname}: {norm(e)[:80]}",
                                f"the int64 view of the temporal values is {bad} before it reaches the kernel: float64 carries 53 bits, "
                                f"nanosecond timestamps (and timedeltas beyond ~104 days) need more, so cumulative / reduced temporal "
                                f"results are off by up to ~100 ns instead of being exact")
            if not found:
                res.ok(f, f.node, f"{f.qualname}: int64 views of temporal values stay integers", "", nontrivial=False)
    if n == 0:
        raise AnalysisError("T5: no function takes int views with _cast_timestamps_to_ints any more")
    return res


def _t5_names(f: Func, taint: Set[str]) -> Set[str]:
    """the cast results and the loop / comprehension variables that iterate over them"""
    out = set(taint)
    for x in ast.walk(f.node):
        if isinstance(x, ast.comprehension) and {y.id for y in ast.walk(x.iter) if isinstance(y, ast.Name)} & out:
            out |= {y.id for y in ast.walk(x.target) if isinstance(y, ast.Name)}
        if isinstance(x, ast.For) and {y.id for y in ast.walk(x.iter) if isinstance(y, ast.Name)} & out:
            out |= {y.id for y in ast.walk(x.target) if isinstance(y, ast.Name)}
    return out


# ------------------------------------------------------------------------------------------------ V1 (frequencies are shares of the counted rows)

def rule_V1(repo: Repo) -> RuleResult:
    """value_counts(normalize=True): the frequencies are the counts divided by THEIR OWN total.  Rows whose key is null are in no
    count; a denominator taken from the number of input rows (len(..), .shape[0], .size of the input / the grouping) makes every
    group's frequency depend on how many null-key rows there are."""
    res = RuleResult("V1", "value_counts: normalised by the sum of the counts, never by the number of input rows")
    f = repo.func("groupby.core", "value_counts")
    sdefs: Dict[str, List[ast.AST]] = {}
    for s in walk_no_nested(f.node):
        if isinstance(s, ast.Assign) and len(s.targets) == 1 and isinstance(s.targets[0], ast.Name):
            sdefs.setdefault(s.targets[0].id, []).append(s.value)
    divs = [e for e in walk_no_nested(f.node) if isinstance(e, ast.BinOp) and isinstance(e.op, (ast.Div, ast.FloorDiv))]
    divs += [s for s in walk_no_nested(f.node) if isinstance(s, ast.AugAssign) and isinstance(s.op, (ast.Div, ast.FloorDiv))]
    divs += [e for e in walk_no_nested(f.node) if isinstance(e, ast.Call) and isinstance(e.func, ast.Attribute) and e.func.attr in ("div", "divide", "truediv") and e.args]
    if not divs:
        raise AnalysisError("V1: value_counts no longer divides the counts (normalize=True)")

    def arms(e: ast.AST, depth: int = 0) -> List[ast.AST]:
        if isinstance(e, ast.IfExp):
            return arms(e.body, depth) + arms(e.orelse, depth)
        if isinstance(e, ast.Name) and e.id in sdefs and depth < 4:
            out = []
            for d in sdefs[e.id]:
                out += arms(d, depth + 1)
            return out
        return [e]
    for d in divs:
        den = d.right if isinstance(d, ast.BinOp) else d.value if isinstance(d, ast.AugAssign) else d.args[0]
        for a in arms(den):
            t = norm(a)
            rows = any(isinstance(c, ast.Call) and norm(c.func) == "len" for c in ast.walk(a)) or ".shape" in t or \
                any(isinstance(x, ast.Attribute) and x.attr == "size" and not isinstance(getattr(x, "ctx", None), ast.Store) and
                    not any(isinstance(c, ast.Call) and c.func is x for c in ast.walk(a)) for x in ast.walk(a))
            if rows:
                res.bad(f, d, f"value_counts: / {t[:60]}",
                        "the frequencies are divided by a number of ROWS: rows with a null key are in no count but are in that total, so "
                        "every group's frequency shrinks with the number of null-key rows (and the frequencies no longer add up to 1)")
            elif any(isinstance(c, ast.Call) and isinstance(c.func, ast.Attribute) and c.func.attr == "sum" for c in ast.walk(a)) \
                    or any(isinstance(c, ast.Call) and norm(c.func) in ("np.sum", "sum", "np.nansum") for c in ast.walk(a)):
                res.ok(f, d, f"value_counts: / {t[:60]}", "the total of the counts")
            else:
                res.ok(f, d, f"value_counts: / {t[:60]}", "not a row count", nontrivial=False)
    return res


# ------------------------------------------------------------------------------------------------ E9 (clock and half-life in one unit)

def rule_E9(repo: Repo) -> RuleResult:
    """Time-weighted EMA: decay = 0.5 ** ((t_i - t_prev) / halflife) needs both in ONE unit.  The half-life is pd.Timedelta(..).value,
    i.e. nanoseconds.  The integer view of the timestamps must therefore be taken after a conversion to nanosecond resolution
    (astype('M8[ns]') / as_unit('ns')); a bare .view(int64) yields the array's own unit (pandas 3 infers s / ms / us / ns per
    object) and the decay is off by a factor of 10^3..10^9 in the exponent."""
    res = RuleResult("E9", "timed EMA: the integer clock is in nanoseconds, the unit of the integer half-life")
    em = repo.mod("emas")
    hl = em.func("_halflife_to_int")
    if not any(isinstance(x, ast.Attribute) and x.attr == "value" for x in ast.walk(hl.node)):
        raise AnalysisError("E9: _halflife_to_int no longer takes pd.Timedelta(..).value (nanoseconds): the unit pairing must be re-confirmed")
    f = em.func("_times_to_int_array")
    views = [c for c in walk_no_nested(f.node) if isinstance(c, ast.Call) and isinstance(c.func, ast.Attribute) and c.func.attr in ("view", "astype")
             and c.args and norm(c.args[0]).strip("'\"").replace("np.", "") in ("int64", "int", "i8")]
    views += [x for x in walk_no_nested(f.node) if isinstance(x, ast.Attribute) and x.attr == "asi8"]
    if not views:
        raise AnalysisError("E9: _times_to_int_array no longer takes an integer view of the timestamps")

    def to_ns(e: ast.AST) -> bool:
        for c in ast.walk(e):
            if isinstance(c, ast.Call) and isinstance(c.func, ast.Attribute) and c.func.attr in ("astype", "as_unit") and c.args:
                a = c.args[0]
                txt = norm(a)
                if "ns" in txt and ("[" in txt or c.func.attr == "as_unit"):
                    return True
        return False
    for v in views:
        recv = v.func.value if isinstance(v, ast.Call) else v.value
        ok = to_ns(recv)
        if not ok and isinstance(recv, ast.Name):
            # the last assignments of the receiver before the view: one of them converts to [ns] (under a temporal-kind test or not)
            for s in walk_no_nested(f.node):
                if isinstance(s, ast.Assign) and s.lineno < v.lineno and any(isinstance(t, ast.Name) and t.id == recv.id for t in s.targets) and to_ns(s.value):
                    ok = True
        if ok:
            res.ok(f, v, f"_times_to_int_array: {norm(v)[:70]}", "integer view taken at nanosecond resolution")
        else:
            res.bad(f, v, f"_times_to_int_array: {norm(v)[:70]}",
                    "the integer view of the timestamps is taken in the array's own resolution while the half-life is in nanoseconds "
                    "(pd.Timedelta.value): for datetime64[us] / [ms] / [s] times (what pandas 3 produces for most inputs) the exponent "
                    "(t_i - t_prev) / halflife is too small by 10^3 / 10^6 / 10^9 and the average hardly decays")
    return res


# ------------------------------------------------------------------------------------------------ D10 (chunked values: producer and dispatcher agree)

def rule_D10(repo: Repo) -> RuleResult:
    """Values that arrive in several chunks (pyarrow ChunkedArray, polars with several chunks) are reduced chunk by chunk.
    _chunk_groupby_args recognises them by TYPE (isinstance(values, NumbaList)); _group_func_wrap must therefore hand over that
    type whenever it still considers the values chunked.  A tuple / list (what zip(*..) or a comprehension leave behind) falls
    through to the single-array branch, where np.array_split of ragged chunks raises - the same numbers must come out for
    every container."""
    res = RuleResult("D10", "chunked values reach _chunk_groupby_args in the container type its dispatch test recognises")
    nb = repo.mod("groupby.numba")
    cons = nb.func("_chunk_groupby_args")
    vp = "values"
    accepted: Set[str] = set()
    for t in walk_no_nested(cons.node):
        if isinstance(t, ast.If):
            for c in ast.walk(t.test):
                if isinstance(c, ast.Call) and norm(c.func) == "isinstance" and len(c.args) == 2 and norm(c.args[0]) == vp:
                    tt = c.args[1]
                    accepted |= {norm(x).split(".")[-1] for x in (tt.elts if isinstance(tt, ast.Tuple) else [tt])}
            if accepted:
                break
    if not accepted:
        raise AnalysisError("D10: _chunk_groupby_args no longer recognises chunked values with an isinstance test")
    f = nb.func("_group_func_wrap")
    flags = [s.targets[0].id for s in walk_no_nested(f.node) if isinstance(s, ast.Assign) and len(s.targets) == 1 and isinstance(s.targets[0], ast.Name)
             and isinstance(s.value, ast.Compare) and "len(" in norm(s.value) and vp in norm(s.value)]
    if not flags:
        raise AnalysisError("D10: the 'values are chunked' flag of _group_func_wrap (len(values) > 1) is not found")
    flag = flags[0]

    def kind_of(v: ast.AST, cur: str) -> str:
        if isinstance(v, ast.Call):
            fn = (call_name(v) or norm(v.func)).split(".")[-1]
            if fn == "_val_to_numpy":
                return "NumbaList" if any(k.arg == "as_list" and isinstance(k.value, ast.Constant) and k.value.value is True for k in v.keywords) else "ndarray"
            if fn in ("NumbaList", "List"):
                return "NumbaList"
            if fn in ("tuple", "zip"):
                return "tuple"
            if fn == "list":
                return "list"
            if fn in ("concatenate", "asarray", "array", "hstack"):
                return "ndarray"
            return "unknown"
        if isinstance(v, (ast.ListComp, ast.List)):
            return "list"
        if isinstance(v, (ast.Tuple, ast.GeneratorExp)):
            return "tuple"
        if isinstance(v, ast.Subscript) and isinstance(v.value, ast.Name) and v.value.id == vp:
            return "ndarray" if const_int(v.slice) is not None else cur
        return "unknown"

    results: List[Tuple[str, Optional[bool], ast.AST]] = []

    def run(block: List[ast.stmt], states: List[Tuple[str, Optional[bool]]]) -> List[Tuple[str, Optional[bool]]]:
        for st in block:
            if not states:
                break
            if isinstance(st, ast.Assign):
                tg = st.targets[0]
                if isinstance(tg, ast.Name) and tg.id == vp:
                    states = [(kind_of(st.value, k), fl) for k, fl in states]
                elif isinstance(tg, (ast.Tuple, ast.List)) and tg.elts and isinstance(tg.elts[0], ast.Name) and tg.elts[0].id == vp:
                    states = [("tuple" if "zip(" in norm(st.value) else "unknown", fl) for k, fl in states]
                elif isinstance(tg, ast.Name) and tg.id == flag:
                    v = st.value
                    nv = v.value if isinstance(v, ast.Constant) and isinstance(v.value, bool) else None
                    states = [(k, nv) for k, fl in states]
                elif any(isinstance(k_, ast.keyword) and k_.arg == vp and norm(k_.value) == vp for k_ in ast.walk(st.value)) \
                        or any(isinstance(d_, ast.Dict) and any(isinstance(kk, ast.Constant) and kk.value == vp and norm(vv) == vp
                                                                for kk, vv in zip(d_.keys, d_.values)) for d_ in ast.walk(st.value)) \
                        or (isinstance(st.value, ast.Call) and norm(st.value.func) == "locals"):
                    results.extend((k, fl, st) for k, fl in states)
            elif isinstance(st, ast.If):
                t = st.test
                pol = None
                if isinstance(t, ast.Name) and t.id == flag:
                    pol = True
                elif isinstance(t, ast.UnaryOp) and isinstance(t.op, ast.Not) and isinstance(t.operand, ast.Name) and t.operand.id == flag:
                    pol = False
                if pol is None:
                    a = run(st.body, list(states))
                    b = run(st.orelse, list(states))
                else:
                    a = run(st.body, [(k, pol) for k, fl in states if fl is None or fl is pol])
                    b = run(st.orelse, [(k, not pol) for k, fl in states if fl is None or fl is (not pol)])
                states = list(dict.fromkeys(a + b))
            elif isinstance(st, (ast.Return, ast.Raise)):
                return []
            elif isinstance(st, (ast.For, ast.While, ast.With, ast.Try)):
                states = run(getattr(st, "body", []), states)
        return states
    run(f.node.body, [("unknown", None)])
    if not results:
        raise AnalysisError("D10: the keyword table of _group_func_wrap (values=values) is not found")
    seen = set()
    for k, fl, st in results:
        if (k, fl) in seen:
            continue
        seen.add((k, fl))
        if fl is False or k == "unknown" or k == "ndarray":
            continue
        if k in accepted:
            res.ok(f, st, f"_group_func_wrap: chunked values handed over as {k}", f"recognised by isinstance(values, {'/'.join(sorted(accepted))})")
        else:
            res.bad(f, st, f"_group_func_wrap: chunked values handed over as {k}",
                    f"on the path where the values are still chunked they are a {k}, but _chunk_groupby_args recognises chunked values only by "
                    f"isinstance(values, {'/'.join(sorted(accepted))}): they fall through to the single-array branch, np.array_split of "
                    f"ragged chunks raises ValueError - a pyarrow ChunkedArray with more than one chunk cannot be reduced by the group_* kernels")
    return res


# ------------------------------------------------------------------------------------------------ U3 (non-skipping running sum propagates nulls)

def rule_U3(repo: Repo) -> RuleResult:
    """cumsum(skip_na=False): 'a null makes the running sum null from there on'.  For floats NaN + x = NaN does that by itself.
    Temporal values reach the scan as int64 views whose null is a sentinel (NaT = int64 min): acc + sentinel is an ordinary
    (wrapped) integer.  So either the non-skipping sum reducer that _apply_cumulative selects (`operation` itself: ScalarFuncs.sum)
    tests its operands with is_null and hands the null on, or _apply_cumulative treats temporal values with skip_na=False
    separately."""
    res = RuleResult("U3", "cumsum(skip_na=False) on temporal values: the null sentinel of the int64 view is propagated, not added")
    nb = repo.mod("groupby.numba")
    ac = nb.func("_apply_cumulative")
    if "_cast_timestamps_to_ints" not in norm(ac.node):
        res.ok(ac, ac.node, "_apply_cumulative takes no integer views of temporal values", "", nontrivial=False)
        return res
    sel = [s for s in walk_no_nested(ac.node) if isinstance(s, ast.Assign) and isinstance(s.value, ast.Call) and norm(s.value.func) == "getattr"
           and s.value.args and norm(s.value.args[0]) == "ScalarFuncs"]
    if not sel:
        raise AnalysisError("U3: _apply_cumulative no longer selects its reducer with getattr(ScalarFuncs, name)")
    red = nb.functions.get("ScalarFuncs.sum")
    if red is None:
        raise AnalysisError("U3: ScalarFuncs.sum (the non-skipping sum reducer) is not found")
    params = red.named_params
    tests = [c for c in ast.walk(red.node) if isinstance(c, ast.Call) and (call_name(c) or "").split(".")[-1] == "is_null"
             and c.args and isinstance(c.args[0], ast.Name) and c.args[0].id in params[:2]]
    special = [t for t in walk_no_nested(ac.node) if isinstance(t, ast.If) and "skip_na" in norm(t.test) and ("'mM'" in norm(t.test) or "kind" in norm(t.test))]
    if tests or special:
        res.ok(red if tests else ac, (tests or special)[0], "non-skipping sum: null operands handled explicitly",
               "is_null test in the reducer" if tests else "temporal values with skip_na=False treated separately")
    else:
        res.bad(red, red.node, "ScalarFuncs.sum: acc + v without a null test",
                "cumsum(<timedelta>, skip_na=False) adds the NaT sentinel (int64 min) of the integer view like a number: the running sum "
                "wraps around to a garbage value (about -106751991167300 days) instead of becoming NaT from the null onwards")
    return res
