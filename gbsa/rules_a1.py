"""A1 must-validate: every array parameter of every public entry point is validated against the
keys (length and pandas index) before it is consumed."""
from __future__ import annotations

import ast
from typing import Dict, List, Optional, Set, Tuple

from .model import AnalysisError, Func, Repo, attr_chain, call_name, norm, walk_no_nested
from .paths import SymPath, enumerate_paths
from .report import RuleResult

CORE = "groupby.core"
ARRAY_PARAMS = ("values", "values1", "values2", "mask", "subset_mask", "global_mask", "times")

# calls that only look at their argument (or raise on mismatch themselves) - not consumers
INSPECTORS = {
    "len", "isinstance", "np.ndim", "get_array_name", "pd.api.types.is_bool_dtype", "hasattr", "getattr", "type", "print",
    "series_is_numeric", "series_is_timestamp", "pd.isna", "list", "zip", "map", "enumerate", "dict", "tuple", "set",
    "ValueError", "TypeError", "KeyError", "NotImplementedError", "str", "repr", "np.shape", "is_categorical",
    "is_pyarrow_backed", "pandas_type_from_array", "iter", "any", "all", "filter", "reversed", "sum", "min", "max",
    "equals", "is_bool_dtype", "ndim",
}
MASK_PARAMS = ("mask", "subset_mask", "global_mask")
# conversions: the result is another view of the same rows (alias)
CONVERTERS = {
    "convert_data_to_arr_list_and_keys", "_val_to_numpy", "np.asarray", "np.asanyarray", "_convert_timestamp_to_tz_unaware",
    "_get_indexes_from_values", "pd.Series", "array_to_series", "to_arrow",
}
MUTUAL = "_validate_input_lengths_and_indexes"


class _DropView:
    """view of the DROP:<name> markers kept inside a path's fact set (so that they live and die with the path)"""

    def __init__(self, facts):
        self.facts = facts

    def __contains__(self, name):
        return ("DROP:" + name) in self.facts

    def add(self, name):
        self.facts.add("DROP:" + name)


class _A1:
    def __init__(self, repo: Repo):
        self.repo = repo
        self.core = repo.mod(CORE)
        self.methods = self.core.methods("GroupBy")
        self.memo: Dict[Tuple[str, str], Tuple[List[Tuple[ast.AST, str, str]], Set[str]]] = {}
        self.in_progress: Set[Tuple[str, str]] = set()
        self._dropped: Dict[int, Set[str]] = {}
        self._single_defs: Dict[str, Dict[str, ast.AST]] = {}
        self._norm_cache: Dict[int, str] = {}
        self._drop_relevant: Dict[int, bool] = {}

    # ---- helpers
    def _if_of_test(self, f: Func) -> Dict[int, ast.If]:
        return {id(n.test): n for n in ast.walk(f.node) if isinstance(n, ast.If)}

    @staticmethod
    def _arm_raises(ifn: ast.If, pol: bool) -> bool:
        arm = ifn.body if pol else ifn.orelse
        return bool(arm) and any(isinstance(s, ast.Raise) for s in arm)

    def _decorated_len_names(self, f: Func) -> Set[str]:
        for d in f.node.decorator_list:
            if isinstance(d, ast.Call) and norm(d.func).split(".")[-1] == "check_data_inputs_aligned":
                names = {a.value for a in d.args if isinstance(a, ast.Constant)}
                return names if names else set(f.named_params)
        return set()

    # ---- the analysis of one (function, parameter)
    def analyze(self, f: Func, q: str) -> Tuple[List[Tuple[ast.AST, str, str]], Set[str]]:
        key = (f.qualname, q)
        if key in self.memo:
            return self.memo[key]
        if key in self.in_progress:
            return [], {"LEN", "IDX"}       # coinductive assumption for recursion (agg -> agg)
        self.in_progress.add(key)
        if_of = self._if_of_test(f)
        violations: List[Tuple[ast.AST, str, str]] = []
        exit_facts: Optional[Set[str]] = None
        try:
            paths = enumerate_paths(f.node.body, limit=30000)
        except AnalysisError:
            # too many paths: fall back to a linear scan of the body in source order (sound: no guard is assumed)
            paths = None
        if paths is None:
            raise AnalysisError(f"A1: path explosion in {f.qualname}")
        seen_v: Set[Tuple[int, str]] = set()
        for p in paths:
            if p.exit == "raise":
                continue
            facts: Set[str] = set()
            aliases: Set[str] = {q}
            index_aliases: Set[str] = set()
            events: List[Tuple[int, int, int, str, object]] = []
            for t, pol in p.conds:
                if isinstance(t, ast.AST) and hasattr(t, "lineno"):
                    events.append((t.lineno, t.col_offset, 0, "cond", (t, pol)))
            for s in p.stmts:
                events.append((s.lineno, s.col_offset, 1, "stmt", s))
            events.sort(key=lambda e: e[:3])
            for _, _, _, kind, payload in events:
                if kind == "cond":
                    t, pol = payload
                    self._cond(f, t, pol, if_of, aliases, index_aliases, facts, q)
                    # a test may itself consume (e.g. subscripts) - ignored: tests only inspect
                    continue
                st = payload
                self._stmt(f, st, aliases, index_aliases, facts, q, violations, seen_v)
            clean = {x for x in facts if not x.startswith("DROP:")}
            exit_facts = set(clean) if exit_facts is None else (exit_facts & clean)
        self.in_progress.discard(key)
        out = (violations, exit_facts or set())
        self.memo[key] = out
        return out

    def _expand_self_locals(self, f: Func, t: ast.AST) -> ast.AST:
        """a local with one definition that only names a property of the grouping (`n = len(self)`, `ki = self._key_index`)
        stands for that expression inside a test"""
        cache = self.__dict__.setdefault("_expand_cache", {})
        if id(t) in cache:
            return cache[id(t)][1]
        sd = self._single_defs_of(f)

        def self_only(e: ast.AST) -> bool:
            if isinstance(e, ast.Attribute):
                return self_only(e.value)
            if isinstance(e, ast.Name):
                return e.id == "self"
            if isinstance(e, ast.Call) and isinstance(e.func, ast.Name) and e.func.id == "len" and len(e.args) == 1 and not e.keywords:
                return self_only(e.args[0])
            return False

        hits = [n for n in ast.walk(t) if isinstance(n, ast.Name) and n.id in sd and n.id not in f.named_params and self_only(sd[n.id])]
        if not hits:
            cache[id(t)] = (t, t)
            return t
        import copy as _copy

        class _S(ast.NodeTransformer):
            def visit_Name(self, n):
                if n.id in sd and n.id not in f.named_params and self_only(sd[n.id]) and isinstance(n.ctx, ast.Load):
                    return ast.copy_location(_copy.deepcopy(sd[n.id]), n)
                return n
        t2 = _S().visit(_copy.deepcopy(t))
        cache[id(t)] = (t, t2)          # keeps `t` alive so that its id is not reused
        return t2

    def _single_defs_of(self, f: Func) -> Dict[str, ast.AST]:
        sd = self._single_defs.get(f.qualname)
        if sd is None:
            cnt: Dict[str, List[ast.AST]] = {}
            for n in walk_no_nested(f.node):
                if isinstance(n, ast.Assign) and len(n.targets) == 1 and isinstance(n.targets[0], ast.Name):
                    cnt.setdefault(n.targets[0].id, []).append(n.value)
            sd = self._single_defs[f.qualname] = {k: v[0] for k, v in cnt.items() if len(v) == 1}
        return sd

    def _mentions(self, e: ast.AST, names: Set[str]) -> bool:
        cache = self.__dict__.setdefault("_names_of", {})
        got = cache.get(id(e))
        if got is None or got[0] is not e:
            got = cache[id(e)] = (e, frozenset(n.id for n in ast.walk(e) if isinstance(n, ast.Name)))
        return not got[1].isdisjoint(names)

    def _walk_cached(self, st: ast.AST):
        cache = self.__dict__.setdefault("_walk_of", {})
        got = cache.get(id(st))
        if got is None or got[0] is not st:
            got = cache[id(st)] = (st, list(ast.walk(st)))
        return got[1]

    def _cond(self, f, t, pol, if_of, aliases, index_aliases, facts, q):
        ifn = if_of.get(id(t))
        # a flag with a single definition stands for the test it was computed from (mask_is_boolean = ... is_bool_dtype(mask) ...)
        if isinstance(t, ast.Name) and t.id not in f.named_params:
            sd = self._single_defs.get(f.qualname)
            if sd is None:
                cnt: Dict[str, List[ast.AST]] = {}
                for n in walk_no_nested(f.node):
                    if isinstance(n, ast.Assign) and len(n.targets) == 1 and isinstance(n.targets[0], ast.Name):
                        cnt.setdefault(n.targets[0].id, []).append(n.value)
                sd = self._single_defs[f.qualname] = {k: v[0] for k, v in cnt.items() if len(v) == 1}
            if t.id in sd:
                t = sd[t.id]
        t = self._expand_self_locals(f, t)
        txt = self._norm_cache.get(id(t))
        if txt is None:
            txt = self._norm_cache[id(t)] = norm(t)
        # the input is absent on this path: there is nothing that could be misaligned
        if isinstance(t, ast.Compare) and len(t.ops) == 1 and isinstance(t.left, ast.Name) and t.left.id in aliases \
                and isinstance(t.comparators[0], ast.Constant) and t.comparators[0].value is None:
            if (isinstance(t.ops[0], ast.Is) and pol is True) or (isinstance(t.ops[0], ast.IsNot) and pol is False):
                facts.update({"LEN", "IDX"})
        # a mask that is not boolean (slice / positions) carries no length or index requirement
        if q in MASK_PARAMS and "is_bool_dtype(" in txt and pol is False and self._mentions(t, aliases):
            facts.update({"LEN", "IDX"})
        # a slice carries no length or index requirement either
        if q in MASK_PARAMS and pol is True and isinstance(t, ast.Call) and norm(t.func) == "isinstance" and len(t.args) == 2 \
                and norm(t.args[1]) == "slice" and self._mentions(t.args[0], aliases):
            facts.update({"LEN", "IDX"})
        # an input that is not a pandas Series has no index to compare
        if pol is False:
            conj = t.values if isinstance(t, ast.BoolOp) and isinstance(t.op, ast.And) else [t]
            ctx = {norm(c) for c in conj}
            vac = {f"isinstance({a}, pd.Series)" for a in aliases} | {"self._key_index is not None"}
            if ctx <= vac and ctx & {f"isinstance({a}, pd.Series)" for a in aliases}:
                facts.add("IDX")        # no pandas index on one of the two sides: nothing to compare
        if ifn is None:
            return
        raising_pol = True if self._arm_raises(ifn, True) else (False if self._arm_raises(ifn, False) else None)
        # length against the keys:  <derived> != len(self)  -> raise
        if "len(self)" in txt and raising_pol is not None and pol != raising_pol:
            names = {n.id for n in ast.walk(t) if isinstance(n, ast.Name)} - {"self", "len"}
            if names & aliases:
                facts.add("LEN")
        # index against the keys:  not self._key_index.equals(ci)  -> raise
        if ".equals(" in txt and "_key_index" in txt and raising_pol is not None and pol != raising_pol:
            if self._mentions(t, index_aliases | aliases):
                facts.add("IDX")
        # vacuous: one of the two sides has no index
        if "_key_index" in txt and "is not None" in txt and ".equals(" not in txt and pol is False:
            inner = [n for n in ast.walk(ifn) if isinstance(n, ast.If) and n is not ifn and ".equals(" in norm(n.test)]
            if inner and self._mentions(t, index_aliases | aliases):
                facts.add("IDX")

    def _stmt(self, f, st, aliases, index_aliases, facts, q, violations, seen_v):
        # opaque loop that checks the index of q against the key index
        if isinstance(st, (ast.For, ast.While)):
            for n in self._walk_cached(st):
                if isinstance(n, ast.If) and any(isinstance(s, ast.Raise) for s in n.body):
                    t = norm(n.test)
                    if ".equals(" in t and any(f"{a}.index" in t for a in aliases) and isinstance(st, ast.For) \
                            and "_key_index" in norm(st.iter):
                        facts.add("IDX")
        self._note_index_drops(st, aliases, facts)
        calls = [n for n in self._walk_cached(st) if isinstance(n, ast.Call)]
        # 1. validators / delegations establish facts (processed before consumption inside the same statement)
        for c in calls:
            cn = call_name(c) or norm(c.func)
            short = cn.split(".")[-1]
            args = list(c.args) + [k.value for k in c.keywords]
            if not any(self._mentions(a, aliases) for a in args):
                continue
            if short == MUTUAL:
                # the common index is only as good as the objects it was computed from: if (elements of) the list handed
                # to the mutual validator were replaced by bare arrays before (an index-dropping conversion), the
                # caller's pandas index was never looked at
                given = {n.id for a in args for n in ast.walk(a) if isinstance(n, ast.Name)}
                weak = any(("DROP:" + g) in facts for g in given)
                if isinstance(st, ast.Assign) and not weak:
                    for t in st.targets:
                        for n in ast.walk(t):
                            if isinstance(n, ast.Name):
                                index_aliases.add(n.id)
                continue
            ch = attr_chain(c.func)
            if ch and ch[0] == "self" and len(ch) == 2 and ch[1] in self.methods:
                callee = self.methods[ch[1]]
                qq = self._bound_param(c, callee, aliases, skip_self=True)
                if qq is not None:
                    v, ef = self.analyze(callee, qq)
                    if not v:
                        # what the callee compared was the object it was GIVEN: if that object had already lost its pandas
                        # index here (mask = np.asarray(mask) before the validator), the index comparison proves nothing
                        given = {n.id for a in list(c.args) + [k.value for k in c.keywords] for n in ast.walk(a)
                                 if isinstance(n, ast.Name)} & aliases
                        if any(("DROP:" + g) in facts for g in given):
                            ef = set(ef) - {"IDX"}
                        facts |= ef
        # 2. consumption
        for c in calls:
            cn = call_name(c) or norm(c.func)
            short = cn.split(".")[-1]
            args = list(c.args) + [k.value for k in c.keywords]
            direct = [a for a in args if self._mentions(a.value if isinstance(a, ast.Starred) else a, aliases)]
            if not direct:
                continue
            if cn in INSPECTORS or short in INSPECTORS or cn in CONVERTERS or short in CONVERTERS or short == MUTUAL:
                continue
            if isinstance(c.func, ast.Attribute) and c.func.attr in ("bind", "bind_partial") and "signature(" in norm(c.func.value):
                # deferred call: signature(g).bind(...) - resolved below through g
                target = c.func.value.args[0] if isinstance(c.func.value, ast.Call) and c.func.value.args else None
                callee = self._resolve(f, target)
                if callee is not None and self._decorated_len_names(callee):
                    bound = self._bound_param(c, callee, aliases, skip_self=False)
                    need = {"IDX"} if bound in self._decorated_len_names(callee) else {"LEN", "IDX"}
                    self._require(f, c, need, facts, q, violations, seen_v, f"passed to {callee.qualname}")
                    continue
                if callee is not None:
                    self._consume_by(f, c, callee, aliases, facts, q, violations, seen_v, skip_self=callee.named_params[:1] == ["self"])
                    continue
            ch = attr_chain(c.func)
            callee = None
            skip_self = False
            if ch and ch[0] == "self" and len(ch) == 2 and ch[1] in self.methods:
                callee, skip_self = self.methods[ch[1]], True
            elif ch and ch[0] == "GroupBy" and len(ch) == 2 and ch[1] in self.methods:
                callee, skip_self = self.methods[ch[1]], False
            if callee is not None:
                self._consume_by(f, c, callee, aliases, facts, q, violations, seen_v, skip_self)
                continue
            # method call on an alias: .iloc / fancy take / arithmetic helpers are consumers; pure getters are not
            if isinstance(c.func, ast.Attribute) and self._mentions(c.func.value, aliases) and not direct:
                continue
            # unknown callee whose *name* is a local bound through getattr(self, ...): delegation to a public method
            if isinstance(c.func, ast.Name) and self._is_getattr_self(f, c.func.id):
                continue
            lib = self._resolve(f, c.func)
            need = {"LEN", "IDX"}
            if lib is not None:
                names = self._decorated_len_names(lib)
                bound = self._bound_param(c, lib, aliases, skip_self=False)
                if bound is not None and bound in names:
                    need = {"IDX"}          # the consumer compares the lengths itself
                if lib.module.name == "groupby.numba" and lib.name.startswith(("group_", "rolling_", "cum")) \
                        and lib.name != "group_nearby_members":
                    need = {"IDX"}          # kernel-level guards: worker decorator + boolean mask length check (D8)
            if short == "array_split_with_chunk_handling":
                need = {"IDX"}              # raises unless the chunk lengths add up to the array length
            self._require(f, c, need, facts, q, violations, seen_v, f"passed to {cn}")
        # subscripts of the parameter itself (positional take before validation)
        for n in self._walk_cached(st):
            if isinstance(n, ast.Subscript) and isinstance(n.ctx, ast.Load) and isinstance(n.value, ast.Name) \
                    and n.value.id in aliases and n.value.id == q:
                self._require(f, n, {"LEN", "IDX"}, facts, q, violations, seen_v, f"positional take {norm(n)}")
        # aliases: only through conversions / inspections / structural re-packing
        is_mutual = isinstance(st, ast.Assign) and isinstance(st.value, ast.Call) and \
            (call_name(st.value) or norm(st.value.func)).split(".")[-1] == MUTUAL
        if isinstance(st, ast.Assign) and self._mentions(st.value, aliases) and self._structural(st.value) and not is_mutual:
            for t in st.targets:
                for n in ast.walk(t):
                    if isinstance(n, ast.Name) and isinstance(n.ctx, ast.Store) and "name" not in n.id \
                            and "type" not in n.id:
                        aliases.add(n.id)
        elif isinstance(st, ast.Assign) and isinstance(st.value, ast.Call):
            # results of the central validator: (names, value list, types, common index)
            ch = attr_chain(st.value.func)
            if ch and ch[-1] == "_preprocess_arguments" and isinstance(st.targets[0], ast.Tuple) \
                    and len(st.targets[0].elts) == 4:
                a0 = st.value.args[0] if st.value.args else next((k.value for k in st.value.keywords if k.arg == "values"), None)
                if a0 is not None and self._mentions(a0, aliases):
                    t = st.targets[0].elts
                    if isinstance(t[1], ast.Name):
                        aliases.add(t[1].id)
                if isinstance(st.targets[0].elts[3], ast.Name):
                    index_aliases.add(st.targets[0].elts[3].id)
        if isinstance(st, (ast.For,)) and self._mentions(st.iter, aliases):
            for n in ast.walk(st.target):
                if isinstance(n, ast.Name):
                    aliases.add(n.id)

    INDEX_DROPPING = {"_convert_timestamp_to_tz_unaware", "_val_to_numpy", "asarray", "asanyarray", "to_numpy", "array"}

    def _note_index_drops(self, st, aliases, facts):
        """names of list aliases whose elements were (possibly) replaced by index-free arrays on this path"""
        rel = self._drop_relevant.get(id(st))
        if rel is None:
            rel = self._drop_relevant[id(st)] = any(isinstance(n, ast.Assign) for n in ast.walk(st))
        if not rel:
            return

        dropped = _DropView(facts)
        for n in self._walk_cached(st):
            if isinstance(n, ast.Assign):
                tg = []
                for t in n.targets:
                    tg.extend(t.elts if isinstance(t, (ast.Tuple, ast.List)) else [t])
                conv = any(isinstance(c, ast.Call) and (call_name(c) or norm(c.func)).split(".")[-1] in self.INDEX_DROPPING
                           for c in self._walk_cached(n.value))
                for t in tg:
                    if conv and isinstance(t, ast.Subscript) and isinstance(t.value, ast.Name) and t.value.id in aliases:
                        dropped.add(t.value.id)
                    # the parameter (or an alias) re-bound to an index-free copy of itself:  mask = np.asarray(mask)
                    if conv and isinstance(t, ast.Name) and t.id in aliases and self._mentions(n.value, {t.id}) \
                            and "LEN" not in facts:
                        dropped.add(t.id)
                    # plain aliasing after the drop:  to_check = value_list   (a copy taken BEFORE the drop is a new name
                    # assigned earlier on the path and is not affected)
                    if isinstance(t, ast.Name) and isinstance(n.value, ast.Name) and n.value.id in dropped:
                        dropped.add(t.id)
                    if isinstance(t, ast.Name) and isinstance(n.value, (ast.List, ast.Tuple)) and any(
                            isinstance(e, ast.Starred) and isinstance(e.value, ast.Name) and e.value.id in dropped
                            for e in n.value.elts):
                        dropped.add(t.id)

    def _structural(self, e: ast.AST) -> bool:
        # scalar attributes of a slice / array (start, stop, step, dtype, shape ...) are not views of the rows
        names_outside_scalar_attrs = set()
        scalar_bases = set()
        for n in self._walk_cached(e):
            if isinstance(n, ast.Attribute) and n.attr in ("start", "stop", "step", "dtype", "shape", "ndim", "size", "name") \
                    and isinstance(n.value, ast.Name):
                scalar_bases.add(id(n.value))
        for n in self._walk_cached(e):
            if isinstance(n, ast.Name) and id(n) not in scalar_bases:
                names_outside_scalar_attrs.add(n.id)
        if scalar_bases and not names_outside_scalar_attrs:
            return False
        for n in self._walk_cached(e):
            if isinstance(n, ast.Call):
                cn = call_name(n) or norm(n.func)
                short = cn.split(".")[-1]
                if not (cn in CONVERTERS or short in CONVERTERS or cn in INSPECTORS or short in INSPECTORS
                        or short == MUTUAL):
                    return False
        return True

    def _is_getattr_self(self, f: Func, name: str) -> bool:
        for n in walk_no_nested(f.node):
            if isinstance(n, ast.Assign) and any(isinstance(t, ast.Name) and t.id == name for t in n.targets) \
                    and isinstance(n.value, ast.Call) and norm(n.value.func) == "getattr" and n.value.args \
                    and norm(n.value.args[0]) == "self":
                return True
        return False

    def _resolve(self, f: Func, e: Optional[ast.AST]) -> Optional[Func]:
        if e is None:
            return None
        c = attr_chain(e)
        if c is None:
            return None
        if len(c) == 1:
            nm = c[0]
            # local import:  from ..emas import ema_grouped
            for m in self.repo.modules.values():
                if nm in m.functions and "." not in nm:
                    if m is f.module or any(isinstance(x, ast.ImportFrom) and any(a.name == nm for a in x.names)
                                            for x in ast.walk(f.module.tree)):
                        return m.functions[nm]
        if len(c) == 2 and c[0] == "numba_funcs":
            return self.repo.mod("groupby.numba").functions.get(c[1])
        if len(c) == 2 and c[0] == "self" and c[1] in self.methods:
            return self.methods[c[1]]
        return None

    def _bound_param(self, call: ast.Call, callee: Func, aliases: Set[str], skip_self: bool) -> Optional[str]:
        params = callee.named_params[1:] if skip_self and callee.named_params[:1] == ["self"] else callee.named_params
        for i, a in enumerate(call.args):
            if isinstance(a, ast.Starred):
                break
            if i < len(params) and self._mentions(a, aliases):
                return params[i]
        for k in call.keywords:
            if k.arg and k.arg in callee.named_params and self._mentions(k.value, aliases):
                return k.arg
        return None

    def _consume_by(self, f, call, callee, aliases, facts, q, violations, seen_v, skip_self):
        qq = self._bound_param(call, callee, aliases, skip_self)
        if qq is None:
            # passed through **kwargs / *args: resolved by name
            if q in callee.named_params:
                qq = q
            else:
                return
        v, ef = self.analyze(callee, qq)
        if v:
            need: Set[str] = set()
            for _, _, missing in v:
                need |= set(missing.split("+"))
            node, what, _ = v[0]
            self._require(f, call, need, facts, q, violations, seen_v,
                          f"passed to {callee.qualname}, which consumes it unvalidated ({what})")

    def _require(self, f, node, need: Set[str], facts: Set[str], q, violations, seen_v, what: str):
        missing = need - facts
        if missing:
            key = (id(node), q)
            if key in seen_v:
                return
            seen_v.add(key)
            violations.append((node, what, "+".join(sorted(missing))))


def _raising_ifs(f: Func):
    for n in ast.walk(f.node):
        if isinstance(n, ast.If) and any(isinstance(s, ast.Raise) for s in n.body):
            yield n


def _len_derived_names(f: Func) -> Set[str]:
    """locals holding lengths (or a collection of lengths) of the inputs: x = len(a), set(map(len, xs)), {len(a) for ..}"""
    out: Set[str] = set()
    for n in ast.walk(f.node):
        if isinstance(n, ast.Assign):
            has_len = any(isinstance(x, ast.Name) and x.id == "len" for x in ast.walk(n.value))
            if has_len:
                for t in n.targets:
                    for x in ast.walk(t):
                        if isinstance(x, ast.Name):
                            out.add(x.id)
                        if isinstance(x, ast.Subscript) and isinstance(x.value, ast.Name):
                            out.add(x.value.id)
    return out


def _leaf_validator_checks(repo: Repo, a: "_A1", res: RuleResult):
    """The validators the must-pass-through analysis relies on really compare and really raise."""
    # 1. the central validator establishes LEN and IDX for values and for a boolean mask on every normal exit
    pre = repo.func(CORE, "GroupBy._preprocess_arguments")
    for q in ("values", "mask"):
        v, ef = a.analyze(pre, q)
        construct = f"_preprocess_arguments({q}): compared with the keys"
        missing = {"LEN", "IDX"} - ef
        if v or missing:
            what = "+".join(sorted(missing)) if missing else "consumed before validation"
            res.bad(pre, pre.node, construct,
                    f"the central validator does not establish {what.replace('LEN', 'the length comparison').replace('IDX', 'the index comparison')} "
                    f"with the group keys for {q!r} on every path that returns normally")
        else:
            res.ok(pre, pre.node, construct, "length and pandas index compared with the keys (raise on mismatch) on every normal exit")
    # 1b. which masks count as boolean (and are therefore validated): pandas / NumPy booleans via is_bool_dtype AND polars
    #     booleans (pd.api.types.is_bool_dtype(pl.Series) is False: a polars mask would otherwise be taken for positions)
    tests = []
    for n in walk_no_nested(pre.node):
        if isinstance(n, ast.If):
            t = n.test
            if isinstance(t, ast.Name):
                defs = [d for d in walk_no_nested(pre.node) if isinstance(d, ast.Assign) and len(d.targets) == 1
                        and isinstance(d.targets[0], ast.Name) and d.targets[0].id == t.id]
                if len(defs) == 1:
                    t = defs[0].value
            if "is_bool_dtype" in norm(t):
                tests.append((n, t))
    for n, t in tests:
        txt = norm(t)
        construct = "_preprocess_arguments: boolean-mask test covers polars"
        if "pl.Boolean" in txt or "polars.Boolean" in txt:
            res.ok(pre, n, construct, "is_bool_dtype(mask) or a polars Boolean Series")
        else:
            res.bad(pre, n, construct,
                    f"the test that decides whether a mask is boolean (and must be validated) is {txt[:80]}: "
                    f"pd.api.types.is_bool_dtype is False for a polars boolean Series, so a polars mask of the wrong length is "
                    f"classified as positions and escapes the length / index validation")
    # 2. mutual validation: more than one distinct length -> raise; two different indexes -> raise
    mv = repo.func(CORE, MUTUAL)
    lens = _len_derived_names(mv)
    len_ok = idx_ok = False
    for n in _raising_ifs(mv):
        names = {x.id for x in ast.walk(n.test) if isinstance(x, ast.Name)}
        if (names & lens or "len" in names) and any(isinstance(x, ast.Compare) for x in ast.walk(n.test)):
            len_ok = True
        if any(isinstance(x, ast.Call) and isinstance(x.func, ast.Attribute) and x.func.attr == "equals" for x in ast.walk(n.test)):
            idx_ok = True
    for ok, what in ((len_ok, "raises when the inputs have more than one distinct length"),
                     (idx_ok, "raises when two inputs carry different pandas indexes")):
        if ok:
            res.ok(mv, mv.node, f"{MUTUAL}: {what}", "")
        else:
            res.bad(mv, mv.node, f"{MUTUAL}: {what}",
                    "the mutual validator no longer performs this comparison: every operation that relies on it accepts "
                    "misaligned inputs")
    # 3. the alignment decorator: lengths of the named arguments compared, raise on mismatch; pandas indexes compared
    dec = repo.mod("util").functions.get("check_data_inputs_aligned.decorator.wrapper")
    if dec is None:
        raise AnalysisError("A1: anchor vanished: util.check_data_inputs_aligned.decorator.wrapper")
    lens = _len_derived_names(dec)
    len_ok = idx_ok = False
    for n in _raising_ifs(dec):
        names = {x.id for x in ast.walk(n.test) if isinstance(x, ast.Name)}
        if (names & lens) and any(isinstance(x, ast.Compare) for x in ast.walk(n.test)):
            len_ok = True
        if any(isinstance(x, ast.Call) and isinstance(x.func, ast.Attribute) and x.func.attr == "equals" for x in ast.walk(n.test)):
            idx_ok = True
    for ok, what in ((len_ok, "raises when the named arguments differ in length"),
                     (idx_ok, "raises when positional pandas arguments carry different indexes")):
        if ok:
            res.ok(dec, dec.node, f"check_data_inputs_aligned: {what}", "")
        else:
            res.bad(dec, dec.node, f"check_data_inputs_aligned: {what}",
                    "the alignment decorator no longer performs this comparison: every entry point that relies on it accepts "
                    "misaligned inputs")


def rule_A1(repo: Repo) -> RuleResult:
    res = RuleResult("A1", "every array parameter of every public operation is validated against the keys before it is consumed")
    a = _A1(repo)
    _leaf_validator_checks(repo, a, res)
    n = 0
    for name, m in sorted(a.methods.items()):
        if name.startswith("_"):
            continue
        for q in ARRAY_PARAMS:
            if q not in m.named_params:
                continue
            n += 1
            v, ef = a.analyze(m, q)
            construct = f"GroupBy.{name}({q})"
            if not v:
                res.ok(m, m.node, construct, "validated (length and index against the keys) before any consumer")
            else:
                for node, what, missing in v[:2]:
                    res.bad(m, node, f"{construct}: {norm(node)[:70]}",
                            f"parameter {q!r} reaches a consumer ({what}) without {missing.replace('LEN', 'its length').replace('IDX', 'its pandas index')} "
                            f"having been compared with the group keys: misaligned input is used instead of rejected")
    # module-level entry points
    core = repo.mod(CORE)
    em = repo.mod("emas")
    for f, names in [(em.func("ema"), ("values", "times")), (em.func("ema_grouped"), ("group_key", "values", "times", "mask")),
                     (repo.func("groupby.numba", "_apply_group_method_single_chunk"), ("group_key", "values")),
                     (repo.func("groupby.numba", "group_nearby_members"), ("group_key", "values"))]:
        have = a._decorated_len_names(f)
        for q in names:
            n += 1
            construct = f"{f.qualname}({q})"
            if q in have:
                res.ok(f, f.node, construct, "length-checked by check_data_inputs_aligned")
            else:
                res.bad(f, f.node, construct, f"{q!r} is not covered by the alignment decorator of {f.qualname}")
    res.analysed = {"entry_point_parameters": n}
    if n < 45:
        raise AnalysisError(f"A1: only {n} (entry point, parameter) obligations found (floor 45)")
    return res
